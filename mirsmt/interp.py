"""Forking symbolic executor over MIR text (engine M).

Direct-style interpreter: MIR calls recurse in Python, library models are plain
Python functions that may call `ex.branch(cond)` and `ex.call_value(..)`.
Path exploration is by *decision replay*: each run executes one path from the
entry; at a branch whose two sides are both satisfiable the run continues with
`True` and the decision prefix + [False] is queued for a later run.
"""
import re
import time
import z3

from .mirparse import split_top, find_top, match_close
from .values import (UNIT, UNINIT, Cell, Lazy, Adt, Ref, FnItem, Obj, INT_BITS, SIGNED, strip_ref, generic_args,
                     tuple_elems, is_scalar, sort_of, bv, conc)
from . import tables as T


class PathEnd(Exception):
    def __init__(self, kind, msg=''):
        Exception.__init__(self, '%s: %s' % (kind, msg))
        self.kind = kind
        self.msg = msg


class Inconclusive(Exception):
    pass


# ------------------------------------------------------------------ program

def canon_callee(text):
    """Return dict(key=..., segs=[...], self_ty=..., trait=..., method=..., generics=[...], text=text)."""
    t = text.strip()
    info = {'text': t, 'self_ty': None, 'trait': None, 'generics': []}
    if t.startswith('<'):
        j = match_close(t, 0)
        inner = t[1:j]
        rest = t[j + 1:]
        k = find_top(inner, ' as ')
        if k != -1:
            info['self_ty'] = inner[:k].strip()
            info['trait'] = inner[k + 4:].strip()
        else:
            info['self_ty'] = inner.strip()
        segs = [s for s in split_top(rest, '::') if s]
        meth = [s for s in segs if not s.startswith('<')]
        info['generics'] = [s for s in segs if s.startswith('<')]
        info['method'] = meth[-1] if meth else ''
        tr = T.type_name_hint(info['trait'])[0] if info['trait'] else T.type_name_hint(info['self_ty'])[0]
        info['key'] = '%s::%s' % (tr, info['method'])
        info['segs'] = [tr] + meth
        return info
    segs = [s for s in split_top(t, '::') if s]
    plain = []
    for i, s in enumerate(segs):
        if s.startswith('<impl') and i + 1 < len(segs):
            plain.append('<impl>')
            info['self_ty'] = s[5:-1].strip()
        elif s.startswith('<'):
            info['generics'].append(s)
        else:
            plain.append(s)
    info['segs'] = plain
    info['method'] = plain[-1] if plain else ''
    info['key'] = '::'.join(plain[-2:])
    return info


class Program:
    def __init__(self, bodies, tables):
        self.tables = tables
        self.bodies = {}
        for name, bl in bodies.items():
            non = [b for b in bl if not b.ctfe]
            self.bodies[name] = (non or bl)[0]
        self.by_self1 = {}     # text of _1's type (refs/Pin stripped) -> body   (closures, coroutines)
        self.by_method = {}    # (selftype ident | None, method) -> [body]
        self.by_suffix = {}
        self.coro_by_loc = {}   # 'src/x.rs:1:2: 3:4' -> poll body of the async block / async closure body
        for name, b in self.bodies.items():
            if b.params:
                mm = re.search(r'\{async (?:block|closure body)@([^}]*)\}', b.params[0][1])
                if mm and re.search(r'\{closure#\d+\}$', name) and b.params[0][1].startswith('Pin<'):
                    self.coro_by_loc[mm.group(1)] = b
            if re.search(r'\{closure#\d+\}$', name) and b.params:
                t = b.params[0][1]
                while True:
                    s = strip_ref(t)
                    if s is None:
                        break
                    t = s
                self.by_self1.setdefault(t, b)
            m = re.search(r'<impl at ([^:]+):(\d+):(\d+): \d+:\d+>::([A-Za-z_]\w*)$', name)
            if m:
                imp = tables.impls.get((m.group(1), int(m.group(2)), int(m.group(3)))) or tables.impls.get((m.group(1), int(m.group(2))))
                st = imp[0] if imp else None
                tr = imp[1] if imp else None
                self.by_method.setdefault((st, m.group(4)), []).append((tr, b))
            elif '{closure' not in name and 'promoted[' not in name:
                segs = name.split('::')
                self.by_suffix.setdefault(segs[-1], []).append((segs, b))

    def find(self, suffix):
        """Body whose name ends with `suffix` (unique)."""
        c = [b for n, b in self.bodies.items() if n.endswith(suffix)]
        if len(c) != 1:
            raise Inconclusive('body %r: %d candidates' % (suffix, len(c)))
        return c[0]

    def closure_body(self, ty):
        ty = ty.strip()
        if '} as ' in ty:
            ty = ty[:ty.index('} as ') + 1]       # a capture-less closure coerced to a fn pointer, printed with its cast
        b = self.by_self1.get(ty)
        if b is None and ty.startswith('{closure@'):
            b = self.by_self1.get('{async closure@' + ty[len('{closure@'):])     # aggregates of async closures are printed as plain closures
        return b

    def poll_body(self, ty, origin):
        """poll body of a coroutine value whose aggregate type text is `ty`, created in body `origin`."""
        mm = re.match(r'\{coroutine@(.*?)( \(#\d+\))?\}$', ty.strip())
        if mm and mm.group(1) in self.coro_by_loc:
            return self.coro_by_loc[mm.group(1)]
        if origin:
            b = self.bodies.get(origin + '::{closure#0}')
            if b is not None and b.params and 'async fn body' in b.params[0][1]:
                return b
        return None

    def _alias_impls(self, st, meth, self_ty, tr, inherent=False):
        """impls written on type aliases of one generic type (`impl Emitter for &mut CucumberQueue<W>` where
        `type CucumberQueue<W> = Queue<Source<Feature>, ..>`): pick the alias whose expansion is the callee's self type"""
        if not hasattr(self, '_alias_cache'):
            self._alias_cache = {}
            self._alias_by_target = {}
            for alias, target in self.tables.aliases.items():
                self._alias_by_target.setdefault(target, []).append(alias)
            self._alias_skel = {}
        cands = [al for al in self._alias_by_target.get(st, []) if (al, meth) in self.by_method]
        if not cands:
            return []
        key = (st, meth, self_ty, tr, inherent)
        if key in self._alias_cache:
            return self._alias_cache[key]
        want = T.skeleton(self.tables, self_ty)
        out = []
        for alias in cands:
            if alias not in self._alias_skel:
                self._alias_skel[alias] = T.skeleton(self.tables, alias)
            if self._alias_skel[alias] != want:
                continue
            out += [b for (t, b) in self.by_method.get((alias, meth), []) if (t is None if inherent else (tr is None or t == tr))]
        self._alias_cache[key] = out
        return out

    def resolve(self, info):
        """Crate-local body for a canonical callee, or None."""
        meth = info['method']
        if info['self_ty'] is not None and info['text'].startswith('<'):
            st = T.type_name_hint(info['self_ty'])[0]
            tr = T.type_name_hint(info['trait'])[0] if info['trait'] else None
            c = [b for (t, b) in self.by_method.get((st, meth), []) if tr is None or t == tr]
            if not c:
                c = self._alias_impls(st, meth, info['self_ty'], tr)
            # qualified self types (`gherkin::Scenario` vs `event::Scenario<W>`): the body's signature must mention the same path
            qual = re.sub(r'<.*$', '', info['self_ty'].strip().lstrip('&').replace('mut ', '').strip())
            if '::' in qual and c:
                # only reject a candidate whose signature names a DIFFERENT module for the same type name
                last = qual.split('::')[-1]
                def other_module(b):
                    for _, t in list(b.params) + [(0, b.ret_type or '')]:
                        for m in re.finditer(r'((?:\w+::)+)%s\b' % re.escape(last), t):
                            if not qual.endswith(m.group(0)) and not m.group(0).endswith(qual):
                                return True
                    return False
                c = [b for b in c if not other_module(b)]
            if len(c) == 1:
                return c[0]
            if len(c) > 1:
                c2 = [b for b in c if len(b.params) == info.get('nargs', len(b.params))]
                if len(c2) == 1:
                    return c2[0]
            # trait default method: `<X as writer::Stats<W>>::execution_has_failed`
            if tr:
                for segs, b in self.by_suffix.get(meth, []):
                    if len(segs) >= 2 and segs[-2] == tr:
                        return b
            return None
        segs = info['segs']
        if len(segs) >= 2:
            c = [b for (t, b) in self.by_method.get((segs[-2], meth), [])]
            if not c:
                # inherent impl written on a type alias (`impl Metadata` where `type Metadata = Event<()>`)
                for alias, target in self.tables.aliases.items():
                    if target == segs[-2]:
                        c += [b for (t, b) in self.by_method.get((alias, meth), [])]
                if len(c) > 1:
                    txt = info['text']
                    k = txt.rfind('::' + meth)
                    if k > 0:
                        c2 = self._alias_impls(segs[-2], meth, txt[:k], None, inherent=True)
                        if c2:
                            c = c2
            if len(c) == 1:
                return c[0]
            if len(c) > 1:
                c2 = [b for b in c if len(b.params) == info.get('nargs', -1)]
                if len(c2) == 1:
                    return c2[0]
                return None
        if '<impl>' in segs and info.get('self_ty'):
            st = T.type_name_hint(info['self_ty'])[0]
            c = [b for n, b in self.bodies.items() if n.endswith('>::' + meth) and b.params and st in b.params[0][1]
                 and len(b.params) == info.get('nargs', len(b.params))]
            if len(c) == 1:
                return c[0]
        cands = self.by_suffix.get(meth, [])
        c = [b for sg, b in cands if sg[-len(segs):] == segs or (len(segs) == 1)]
        if len(segs) > 1:
            c = [b for sg, b in cands if sg[-min(len(sg), len(segs)):] == segs[-min(len(sg), len(segs)):]]
        if len(c) == 1:
            return c[0]
        # a fn item nested in a method (`Type::method::helper`): the body is named `<impl at ..>::method::helper`
        if len(segs) >= 2:
            tail = '::' + '::'.join(segs[-2:])
            c = [b for n, b in self.bodies.items() if n.endswith(tail) and len(b.params) == info.get('nargs', len(b.params))]
            if len(c) == 1:
                return c[0]
        return None


# ------------------------------------------------------------------ executor

class Stats:
    def __init__(self):
        self.paths = 0
        self.blocks = 0
        self.queries = 0
        self.solver_s = 0.0
        self.bodies = {}        # name -> sha
        self.blocks_hit = {}    # body name -> set(bb)
        self.models = set()
        self.uninterp = set()
        self.assumptions = []


class Exec:
    def __init__(self, prog, models, loop_bound=8, timeout_ms=120000, max_paths=20000):
        self.prog = prog
        self.models = models
        self.loop_bound = loop_bound
        self.max_paths = max_paths
        self.solver = z3.Solver()
        self.solver.set('timeout', timeout_ms)
        self.timeout_ms = timeout_ms
        self.fresh_solver = None
        self.last_solver = self.solver
        self.stats = Stats()
        self.forced = []
        self.decisions = []
        self.queue = []
        self.fresh_n = 0
        self.pc = []
        self.depth = 0
        self.uf = {}
        self.coro_origin = {}   # coroutine aggregate type text -> name of the body that creates it
        self.env = {}           # per-path scratch for models (logs, clocks, ...)
        self.known = {}         # per-path: z3 term id -> concrete int (decided discriminants)

    # ---- solver helpers
    def check(self, *extra):
        t0 = time.time()
        self.stats.queries += 1
        if self.fresh_solver:
            # non-incremental: full preprocessing + bit-blasting, much faster on clock arithmetic
            s = z3.SolverFor('QF_BV') if self.fresh_solver == 'QF_BV' else z3.Solver()
            s.set('timeout', self.timeout_ms)
            s.add(*self.pc)
            s.add(*extra)
            r = s.check()
            self.last_solver = s
        else:
            r = self.solver.check(*extra)
            self.last_solver = self.solver
        self.stats.solver_s += time.time() - t0
        if r == z3.unknown:
            raise Inconclusive('solver unknown: %s' % self.solver.reason_unknown())
        return r == z3.sat

    def add(self, cond):
        self.pc.append(cond)
        self.solver.add(cond)

    def assume(self, cond, why=None):
        cond = z3.simplify(cond)
        if z3.is_true(cond):
            return
        if z3.is_false(cond):
            raise PathEnd('infeasible', why or '')
        self.add(cond)
        if not self.check():
            raise PathEnd('infeasible', why or '')

    def branch(self, cond):
        """Decide a symbolic condition on this path; queue the other side if both are feasible."""
        cond = z3.simplify(cond)
        if z3.is_true(cond):
            return True
        if z3.is_false(cond):
            return False
        i = len(self.decisions)
        if i < len(self.forced):
            d = self.forced[i]
            self.decisions.append(d)
            self.add(cond if d else z3.Not(cond))
            return d
        t = self.check(cond)
        f = self.check(z3.Not(cond))
        if t and f:
            self.queue.append(self.decisions + [False])
            self.decisions.append(True)
            self.add(cond)
            return True
        if t:
            self.decisions.append(True)
            self.add(cond)
            return True
        if f:
            self.decisions.append(False)
            self.add(z3.Not(cond))
            return False
        raise PathEnd('infeasible', 'both sides unsat')

    def fresh(self, name, sort):
        """A fresh constant, deterministic in the order of creation along a path."""
        self.fresh_n += 1
        return z3.Const('%s!%d' % (name, self.fresh_n), sort)

    def func(self, name, *sorts):
        key = (name,) + tuple(str(s) for s in sorts)
        if key not in self.uf:
            self.uf[key] = z3.Function(name, *sorts)
        return self.uf[key]

    def explore(self, run, on_end=None, start=None):
        """run(ex) executes ONE path and returns a result object; called once per feasible path.
        Returns list of (kind, result_or_msg, pc, decisions).  `start`: decision prefixes to explore below
        (a partition of the path space for parallel workers); default the whole space."""
        self.queue = [list(p) for p in start] if start else [[]]
        out = []
        self.stop = False          # set by on_end: enough seen (a counterexample was found), skip the remaining paths
        while self.queue and not self.stop:
            if self.stats.paths >= self.max_paths:
                raise Inconclusive('path budget exhausted')
            self.forced = self.queue.pop()
            self.decisions = []
            self.pc = []
            self.fresh_n = 0
            self.env = {}
            self.known = {}
            Cell._n = 0
            self.solver.push()
            try:
                try:
                    res = run(self)
                    kind = 'ok'
                except PathEnd as e:
                    kind, res = e.kind, e.msg
                if kind != 'infeasible':
                    self.stats.paths += 1
                    rec = (kind, res, list(self.pc), list(self.decisions))
                    if on_end is not None:
                        on_end(self, rec)
                    out.append(rec)
            finally:
                self.solver.pop()
        return out

    # ---- values
    def materialize(self, v, ty=None):
        """Turn a Lazy into a concrete-shaped value one level deep (scalar, Adt, Ref)."""
        if not isinstance(v, Lazy):
            return v
        ty = (v.ty or ty or '').strip()
        s = sort_of(ty)
        if s is not None:
            return z3.Const(v.name, s)
        if ty == '()':
            return UNIT
        inner = strip_ref(ty)
        if inner is not None and not ty.startswith(('Arc<', 'std::sync::Arc<')):
            key = ('heap', v.name)
            cell = self.env.setdefault('heap', {}).get(key)
            if cell is None:
                cell = Cell(Lazy(inner, v.name + '*'), name=v.name)
                self.env['heap'][key] = cell
            if ty.startswith(('Pin<', 'std::pin::Pin<')):
                # Pin<&mut T> is a struct around the pointer
                return Adt(ty, {(None, 0): Ref(cell, ())})
            return Ref(cell, ())
        if inner is not None:
            key = ('heap', v.name)
            cell = self.env.setdefault('heap', {}).get(key)
            if cell is None:
                cell = Cell(Lazy(inner, v.name + '*'), name=v.name)
                self.env['heap'][key] = cell
            return Ref(cell, (), pid=z3.Const(v.name + '.ptr', z3.BitVecSort(64)))
        vs = self.prog.tables.enum_variants(ty)
        if vs is not None:
            d = z3.Const(v.name + '.discr', z3.BitVecSort(64))
            if len(vs) == 1:
                return Adt(ty, {}, 0, v.name)
            rs = self.env.setdefault('ranged', set())
            if v.name not in rs:
                rs.add(v.name)
                self.add(z3.ULT(d, bv(len(vs))))
            return Adt(ty, {}, d, v.name)
        return Adt(ty, {}, None, v.name)

    def field_of(self, v, variant, idx, fty):
        v = self.materialize(v)
        if isinstance(v, Ref) and variant is None and idx == 0 and ('ptr::Unique<' in fty or 'ptr::NonNull<' in fty):
            return v        # Box<T> internals (Unique / NonNull wrappers): the pointer itself
        if isinstance(v, Adt):
            key = (variant, idx)
            if key in v.fields:
                return v.fields[key]
            if v.name is None:
                if fty.strip() == '()' or fty.startswith('PhantomData'):
                    return UNIT
                raise Inconclusive('read of absent field %r of %r' % (key, v))
            suffix = ('.%s' % idx) if variant is None else ('@%s.%s' % (variant, idx))
            return Lazy(fty, v.name + suffix)
        if isinstance(v, Obj):
            return self.models.obj_field(self, v, variant, idx, fty)
        raise Inconclusive('field %s.%s of non-aggregate %r' % (variant, idx, v))

    def norm_variant(self, ty, variant):
        """Variant name -> index where the enum is known."""
        if isinstance(variant, int) or variant is None:
            return variant
        vs = self.prog.tables.enum_variants(ty)
        if vs is not None:
            for i, x in enumerate(vs):
                if x[0] == variant:
                    return i
        return variant

    def read_path(self, cell, path):
        v = cell.v
        for st in path:
            if st[0] == 'f':
                v = self.field_of(v, st[1], st[2], st[3])
            elif st[0] == 'idx':
                v = self.models.index_read(self, v, st[1])
            elif st[0] == 'slot':
                v = self.models.slot_read(self, v, st)
            else:
                raise Inconclusive('path step %r' % (st,))
        return v

    def write_path(self, cell, path, val):
        cell.v = self._upd(cell.v, path, 0, val)

    def _upd(self, v, path, i, val):
        if i == len(path):
            return val
        st = path[i]
        if st[0] == 'f':
            v = self.materialize(v)
            if v is UNINIT or v is None:
                v = Adt('?', {}, None, None)
            if isinstance(v, Obj):
                return self.models.obj_field_write(self, v, st, self._upd, path, i, val)
            if not isinstance(v, Adt):
                raise Inconclusive('write into non-aggregate %r' % (v,))
            key = (st[1], st[2])
            if i + 1 == len(path):
                return v.with_field(key, val)
            if key in v.fields:
                cur = v.fields[key]
            elif v.name is not None:
                cur = Lazy(st[3], v.name + (('.%s' % st[2]) if st[1] is None else ('@%s.%s' % (st[1], st[2]))))
            else:
                cur = Adt(st[3], {}, None, None)
            return v.with_field(key, self._upd(cur, path, i + 1, val))
        if st[0] == 'idx':
            return self.models.index_write(self, v, st[1], lambda cur: self._upd(cur, path, i + 1, val))
        if st[0] == 'slot':
            return self.models.slot_write(self, v, st, lambda cur: self._upd(cur, path, i + 1, val))
        raise Inconclusive('write path step %r' % (st,))

    def deref(self, v, ty=None):
        """value of pointer-like type -> (cell, path)."""
        v = self.materialize(v, ty)
        if isinstance(v, Ref):
            return v.cell, v.path
        if isinstance(v, Adt):
            # newtype around a pointer: Pin<P> / Source<T>(Arc<T>)
            if (None, 0) in v.fields:
                return self.deref(v.fields[(None, 0)])
            if v.name is not None:
                h = T.type_name_hint(v.ty)[0]
                g = generic_args(v.ty)
                if h == 'Source' and g:
                    return self.deref(self.field_of(v, None, 0, 'Arc<%s>' % g[0]))
                if h == 'Pin' and g:
                    return self.deref(self.field_of(v, None, 0, g[0]))
        if isinstance(v, Obj):
            r = self.models.obj_deref(self, v)
            return r.cell, r.path
        raise Inconclusive('deref of %r' % (v,))

    # ---- frames
    def call_body(self, body, args):
        hook = self.models.body_hooks.get(body.name)
        if hook is not None:
            return hook(self, body, args)
        fr = Frame(self, body, args)
        return fr.run()

    def call_value(self, f, args):
        """Call a closure value / fn item with a python list of argument values."""
        f = self.materialize(f)
        if isinstance(f, Ref):
            f0 = self.read_path(f.cell, f.path)
            f0 = self.materialize(f0)
            if isinstance(f0, Adt) and (f0.ty.startswith('{closure@') or f0.ty.startswith('{async closure@')):
                body = self.prog.closure_body(f0.ty)
                if body is None:
                    raise Inconclusive('no body for closure %s' % f0.ty)
                if body.params[0][1].strip().startswith('&'):
                    return self.call_body(body, [f] + list(args))
                return self.call_body(body, [f0] + list(args))
            f = f0
        if isinstance(f, Adt) and (f.ty.startswith('{closure@') or f.ty.startswith('{async closure@')):
            body = self.prog.closure_body(f.ty)
            if body is None:
                raise Inconclusive('no body for closure %s' % f.ty)
            p1 = body.params[0][1].strip()
            if p1.startswith('&'):
                # a closure VALUE called through `&mut self`: what it captured persists between the calls an adaptor makes
                # (`iter.map(move |x| { state.next() .. })`): one cell per closure value on this path
                cells = self.env.setdefault('closure_cells', {})
                ent = cells.get(id(f))
                if ent is None or ent[0] is not f:
                    ent = (f, Cell(f))
                    cells[id(f)] = ent
                return self.call_body(body, [Ref(ent[1], ())] + list(args))
            return self.call_body(body, [f] + list(args))
        if isinstance(f, FnItem):
            return self.call_named(f.text, list(args), None)
        return self.models.call_opaque_fn(self, f, args)

    def call_named(self, callee, args, dest_ty):
        info = canon_callee(callee)
        info['nargs'] = len(args)
        tys = getattr(self, 'cur_arg_tys', None) or []
        self.cur_arg_tys = None
        info['arg_tys'] = tys
        info['mut_arg'] = any(t.strip().startswith('&mut') or t.strip().startswith('Pin<&mut') for t in tys)
        if info['key'] in self.models.opaque_bodies:
            return self.models.uninterpreted(self, info, args, dest_ty)
        m = self.models.lookup(info)
        if m is not None:
            self.stats.models.add(info['key'])
            return m(self, info, args, dest_ty)
        body = self.prog.resolve(info)
        if body is not None:
            return self.call_body(body, args)
        return self.models.uninterpreted(self, info, args, dest_ty)


class Frame:
    def __init__(self, ex, body, args):
        self.ex = ex
        self.body = body
        self.cells = {}
        if len(args) != len(body.params):
            raise Inconclusive('arity mismatch calling %s: %d vs %d' % (body.name, len(args), len(body.params)))
        for (l, _), a in zip(body.params, args):
            self.cells[l] = Cell(a)
        ex.stats.bodies[body.name] = body.sha

    def cell(self, l):
        c = self.cells.get(l)
        if c is None:
            ty = self.body.locals.get(l, '')
            init = UNINIT
            if ty.startswith('{closure@'):
                init = Adt(ty, {}, None, None)      # zero-sized closure: never assigned in MIR
            c = Cell(init, name='%s._%d' % (self.body.name[-30:], l))
            self.cells[l] = c
        return c

    def run_drop(self, place):
        ex = self.ex
        try:
            ty = self.place_type(place)
        except Exception:  # noqa
            return
        st = T.type_name_hint(ty or '')[0]
        cands = [b for (tr, b) in ex.prog.by_method.get((st, 'drop'), []) if tr == 'Drop']
        if len(cands) != 1:
            return
        cell, path, _ = self.lvalue(place)
        v = ex.read_path(cell, path) if cell.v is not UNINIT else UNINIT
        if v is UNINIT:
            return
        ex.call_body(cands[0], [Ref(cell, path)])

    # -- places
    def lvalue(self, place):
        """-> (cell, path, type)"""
        ex = self.ex
        local, proj = place
        cell, path = self.cell(local), ()
        ty = self.body.locals.get(local, '?')
        variant = None
        for p in proj:
            k = p[0]
            if k == 'deref':
                v = ex.read_path(cell, path)
                cell, path = ex.deref(v, ty)
                ty = strip_ref(ty) or '?'
                variant = None
            elif k == 'downcast':
                variant = ex.norm_variant(ty, p[1])
            elif k == 'field':
                path = path + (('f', variant, p[1], p[2]),)
                ty = p[2]
                variant = None
            elif k == 'index':
                iv = self.read((p[1], []))
                path = path + (('idx', iv),)
                ty = '?'
            elif k == 'constindex':
                path = path + (('idx', bv(p[1])),) if not p[3] else path + (('idx', ('fromend', p[1])),)
                ty = '?'
            else:
                raise Inconclusive('projection %r' % (p,))
        return cell, path, ty

    def read(self, place):
        cell, path, ty = self.lvalue(place)
        v = self.ex.read_path(cell, path)
        if v is UNINIT:
            raise Inconclusive('read of uninitialised %r in %s' % (place, self.body.name))
        if isinstance(v, Lazy) and (is_scalar(v.ty) or is_scalar(ty)):
            v = self.ex.materialize(v, ty)
        return v

    def write(self, place, val):
        cell, path, ty = self.lvalue(place)
        self.ex.write_path(cell, path, val)

    def place_type(self, place):
        local, proj = place
        ty = self.body.locals.get(local, '?')
        for p in proj:
            if p[0] == 'deref':
                ty = strip_ref(ty) or '?'
            elif p[0] == 'field':
                ty = p[2]
            elif p[0] in ('index', 'constindex'):
                ty = '?'
        return ty

    # -- operands
    def operand(self, op):
        k = op[0]
        if k in ('copy', 'move'):
            return self.read(op[1])
        return self.const(op[1])

    def const(self, text):
        t = text.strip()
        if t == 'true':
            return z3.BoolVal(True)
        if t == 'false':
            return z3.BoolVal(False)
        if t == '()':
            return UNIT
        m = re.fullmatch(r'(-?\d+)_(u8|u16|u32|u64|u128|usize|i8|i16|i32|i64|i128|isize)', t)
        if m:
            return z3.BitVecVal(int(m.group(1)), INT_BITS[m.group(2)])
        if t.startswith('"') or t.startswith('b"'):
            return Obj('str', text=t)
        if t.startswith("'"):
            body = t[1:-1]
            esc = {'\\n': '\n', '\\t': '\t', '\\r': '\r', '\\0': '\0', "\\'": "'", '\\"': '"', '\\\\': '\\'}
            mu = re.fullmatch(r'\\u\{([0-9a-fA-F]+)\}', body)
            if len(body) == 1:
                return z3.BitVecVal(ord(body), 32)
            if body in esc:
                return z3.BitVecVal(ord(esc[body]), 32)
            if mu:
                return z3.BitVecVal(int(mu.group(1), 16), 32)
            return Obj('char', text=t)
        if t.startswith('ZeroSized: '):
            ty = t[len('ZeroSized: '):]
            if ty.startswith('{closure@'):
                return Adt(ty, {}, None, None)
            return Adt(ty, {}, None, None)
        m = re.match(r'(.*)::promoted\[(\d+)\]$', t)
        if t.startswith('_') or 'promoted[' in t:
            pass
        return self.ex.models.constant(self.ex, self, t)

    # -- rvalues
    def rvalue(self, rv, dest_ty):
        ex = self.ex
        k = rv[0]
        if k == 'use':
            return self.operand(rv[1])
        if k == 'ref' or k == 'rawptr':
            cell, path, ty = self.lvalue(rv[2])
            return Ref(cell, path)
        if k == 'binop':
            return self.binop(rv[1], self.operand(rv[2]), self.operand(rv[3]), rv)
        if k == 'unop':
            a = self.operand(rv[2])
            if rv[1] == 'Not':
                return z3.Not(a) if z3.is_bool(a) else ~a
            if rv[1] == 'Neg':
                return -a
            if rv[1] == 'PtrMetadata':
                # the length a slice / str reference carries
                v = ex.materialize(a)
                for _ in range(4):
                    if isinstance(v, Ref):
                        v = ex.materialize(ex.read_path(v.cell, v.path))
                if isinstance(v, Obj) and v.kind == 'vec':
                    return z3.BitVecVal(len(v.items), 64)
                if isinstance(v, Obj) and v.kind == 'str':
                    t = v.text[1:] if v.text.startswith('b"') else v.text
                    if t.startswith('"') and t.endswith('"') and '\\' not in t:
                        return z3.BitVecVal(len(t[1:-1].encode('utf-8')), 64)
                raise Inconclusive('PtrMetadata of %r' % (v,))
            raise Inconclusive('unop %s' % rv[1])
        if k == 'discr':
            cell, path, ty = self.lvalue(rv[1])
            v = ex.read_path(cell, path)
            if isinstance(v, Lazy):
                v = ex.materialize(v, ty)
                # remember the materialised shape so that the discriminant constraint is added once
            if isinstance(v, Obj):
                return ex.models.obj_discr(ex, v)
            if not isinstance(v, Adt):
                raise Inconclusive('discriminant of %r' % (v,))
            d = v.discr
            if d is None:
                if v.name is not None:
                    return z3.Const(v.name + '.discr', z3.BitVecSort(64))
                return bv(0)
            return bv(d) if isinstance(d, int) else d
        if k == 'agg':
            return self.aggregate(rv, dest_ty)
        if k == 'cast':
            v = self.operand(rv[1])
            kind = rv[3]
            if kind.startswith('PointerCoercion') or kind in ('PtrToPtr', 'Transmute', 'Subtype'):
                if kind == 'Transmute' and not isinstance(v, (Ref, Adt, Lazy, Obj)):
                    raise Inconclusive('transmute of scalar')
                return v
            if kind == 'IntToInt':
                tb = INT_BITS.get(rv[2].strip())
                if z3.is_bool(v):
                    return z3.If(v, bv(1, tb), bv(0, tb))
                sb = v.size()
                if tb == sb:
                    return v
                if tb < sb:
                    return z3.Extract(tb - 1, 0, v)
                src_ty = self.operand_type(rv[1])
                return z3.SignExt(tb - sb, v) if src_ty in SIGNED else z3.ZeroExt(tb - sb, v)
            raise Inconclusive('cast kind %s' % kind)
        if k == 'len':
            v = self.read(rv[1])
            return ex.models.length(ex, v)
        if k == 'repeat':
            raise Inconclusive('array repeat')
        if k == 'nullop':
            if rv[1] == 'UbChecks':
                return z3.BoolVal(False)
            raise Inconclusive('nullop %s' % rv[1])
        raise Inconclusive('rvalue %r' % (rv,))

    def operand_type(self, op):
        if op[0] in ('copy', 'move'):
            return self.place_type(op[1]).strip()
        m = re.search(r'_(\w+)$', op[1])
        return m.group(1) if m else '?'

    def binop(self, op, a, b, rv):
        sty = self.operand_type(rv[2])
        signed = sty in SIGNED
        if op in ('Eq', 'Ne'):
            if isinstance(a, (Adt, Ref, Lazy, Obj)) or isinstance(b, (Adt, Ref, Lazy, Obj)):
                raise Inconclusive('Eq on aggregates')
            r = (a == b)
            return r if op == 'Eq' else z3.Not(r)
        if op == 'Lt':
            return (a < b) if signed else z3.ULT(a, b)
        if op == 'Le':
            return (a <= b) if signed else z3.ULE(a, b)
        if op == 'Gt':
            return (a > b) if signed else z3.UGT(a, b)
        if op == 'Ge':
            return (a >= b) if signed else z3.UGE(a, b)
        if op in ('BitAnd', 'BitOr', 'BitXor'):
            if z3.is_bool(a):
                return {'BitAnd': z3.And, 'BitOr': z3.Or, 'BitXor': z3.Xor}[op](a, b)
            return {'BitAnd': a & b, 'BitOr': a | b, 'BitXor': a ^ b}[op]
        if op in ('Add', 'AddUnchecked'):
            return a + b
        if op in ('Sub', 'SubUnchecked'):
            return a - b
        if op in ('Mul', 'MulUnchecked'):
            return a * b
        if op == 'Div':
            return (a / b) if signed else z3.UDiv(a, b)
        if op == 'Rem':
            return z3.SRem(a, b) if signed else z3.URem(a, b)
        if op in ('AddWithOverflow', 'SubWithOverflow', 'MulWithOverflow'):
            n = a.size()
            if op == 'AddWithOverflow':
                r = a + b
                ov = z3.Not(z3.BVAddNoOverflow(a, b, signed)) if not signed else z3.Or(z3.Not(z3.BVAddNoOverflow(a, b, True)), z3.Not(z3.BVAddNoUnderflow(a, b)))
            elif op == 'SubWithOverflow':
                r = a - b
                ov = z3.Not(z3.BVSubNoUnderflow(a, b, signed)) if not signed else z3.Or(z3.Not(z3.BVSubNoOverflow(a, b)), z3.Not(z3.BVSubNoUnderflow(a, b, True)))
            else:
                r = a * b
                ov = z3.Not(z3.BVMulNoOverflow(a, b, signed))
                if signed:
                    ov = z3.Or(ov, z3.Not(z3.BVMulNoUnderflow(a, b)))
            return Adt('(%s, bool)' % sty, {(None, 0): z3.simplify(r), (None, 1): z3.simplify(ov)})
        if op in ('Shl', 'ShlUnchecked'):
            return a << b
        if op in ('Shr', 'ShrUnchecked'):
            return (a >> b) if signed else z3.LShR(a, b)
        raise Inconclusive('binop %s' % op)

    def aggregate(self, rv, dest_ty):
        ex = self.ex
        _, kind, name, fields = rv
        if kind == 'tuple':
            if not fields:
                return UNIT
            return Adt(dest_ty or 'tuple', {(None, i): self.operand(f) for i, f in enumerate(fields)})
        if kind == 'array':
            return Obj('vec', items=tuple(self.operand(f) for f in fields), ty=dest_ty)
        if kind == 'closure':
            vals = {(None, i): self.operand(op) for i, (_, op) in enumerate(fields)}
            if name.startswith('{closure@') or name.startswith('{async closure@'):
                return Adt(name, vals, None, None)
            # coroutine / async block: state discriminant 0 (unresumed)
            ex.coro_origin[name] = self.body.name
            return Adt(name, vals, 0, None)
        if kind == 'struct':
            ty = name
            fl = ex.prog.tables.struct_fields(ty)
            vs = None
            variant = None
            if fl is None or not isinstance(fl, list):
                # enum struct-variant:  Enum::<G>::Variant { f: .. }
                segs = [s for s in split_top(name, '::') if s and not s.startswith('<')]
                if len(segs) >= 2:
                    ety = '::'.join(segs[:-1])
                    vs = ex.prog.tables.enum_variants(ety)
                    if vs is not None:
                        for i, x in enumerate(vs):
                            if x[0] == segs[-1]:
                                variant, fl = i, x[2]
                if fl is None:
                    # layout not in the source tables (macro-generated struct): MIR lists fields in index order
                    return Adt(dest_ty or ty, {(None, i): self.operand(op) for i, (_, op) in enumerate(fields)}, None, None)
            vals = {}
            for fname, op in fields:
                if fname not in fl:
                    raise Inconclusive('field %s not in %s' % (fname, name))
                vals[(variant, fl.index(fname))] = self.operand(op)
            return Adt(dest_ty or ty, vals, variant, None)
        if kind == 'ctor':
            return ex.models.ctor(ex, self, name, [self.operand(f) for f in fields], dest_ty)
        raise Inconclusive('aggregate %r' % (rv,))

    # -- control
    def run(self):
        ex = self.ex
        body = self.body
        visits = {}
        bb = 0
        ex.depth += 1
        if ex.depth > 200:
            raise Inconclusive('call depth')
        hit = ex.stats.blocks_hit.setdefault(body.name, set())
        try:
            while True:
                blk = body.blocks[bb]
                visits[bb] = visits.get(bb, 0) + 1
                if visits[bb] > ex.loop_bound:
                    raise PathEnd('loopbound', '%s bb%d' % (body.name, bb))
                hit.add(bb)
                ex.stats.blocks += 1
                for st in blk.stmts:
                    if st[0] == 'assign':
                        if st[2][0] == 'unknown':
                            raise Inconclusive('unparsed rvalue in %s: %s' % (body.name, st[2][1]))
                        dty = self.place_type(st[1])
                        self.write(st[1], self.rvalue(st[2], dty))
                    elif st[0] == 'setdiscr':
                        cell, path, ty = self.lvalue(st[1])
                        v = ex.read_path(cell, path)
                        v = ex.materialize(v, ty) if isinstance(v, Lazy) else v
                        if v is UNINIT:
                            v = Adt(ty, {}, None, None)
                        ex.write_path(cell, path, v.with_discr(st[2]))
                    else:
                        raise Inconclusive('statement %r in %s' % (st[:2], body.name))
                t = blk.term
                k = t[0]
                if k == 'goto':
                    bb = t[1]
                elif k == 'return':
                    c = self.cells.get(0)
                    v = c.v if c is not None else UNIT
                    if v is UNINIT:
                        v = UNIT
                    return v
                elif k == 'switch':
                    v = self.operand(t[1])
                    if z3.is_bool(v):
                        v = z3.If(v, bv(1, 8), bv(0, 8))
                    nxt = None
                    for val, target in t[2]:
                        if ex.branch(v == z3.BitVecVal(val, v.size())):
                            nxt = target
                            break
                    if nxt is None:
                        nxt = t[3]
                    if nxt is None:
                        raise PathEnd('unreachable', body.name)
                    bb = nxt
                elif k == 'drop':
                    # drop glue: a `Drop` impl of the crate on the place's own type runs (RAII guards); library types and
                    # the fields' own glue have no modelled effect
                    self.run_drop(t[1])
                    bb = t[2]
                elif k == 'assert':
                    c = self.operand(t[1])
                    ok = ex.branch(c if t[2] else z3.Not(c))
                    if not ok:
                        raise PathEnd('panic', 'assert %s in %s' % (t[3][:60], body.name))
                    bb = t[4]
                elif k == 'call':
                    args = [self.operand(a) for a in t[3]]
                    dty = self.place_type(t[1])
                    ex.cur_frame = self
                    ex.cur_arg_tys = [self.operand_type(a) for a in t[3]]
                    if t[2].startswith(('move _', 'copy _', 'move (', 'copy (')):
                        # call through a function pointer held in a place
                        from .mirparse import parse_operand
                        fval = self.operand(parse_operand(t[2]))
                        r = ex.models.call_fn_value(ex, fval, args, dty, {'text': t[2], 'key': 'fnptr', 'method': 'call'})
                    else:
                        r = ex.call_named(t[2], args, dty)
                    if t[4] is None:
                        raise PathEnd('panic', 'diverging call %s in %s' % (t[2][:60], body.name))
                    self.write(t[1], r)
                    bb = t[4]
                elif k == 'unreachable':
                    raise PathEnd('unreachable', '%s bb%d' % (body.name, bb))
                elif k == 'resume':
                    raise PathEnd('panic', 'resume in %s' % body.name)
                else:
                    raise Inconclusive('terminator %r in %s' % (t[:2], body.name))
        except Inconclusive as e:
            if len(getattr(e, 'trace', [])) < 6:
                e.trace = getattr(e, 'trace', []) + ['%s bb%d' % (body.name[-70:], bb)]
                e.args = (e.args[0].split(' @@ ')[0] + ' @@ ' + ' <- '.join(e.trace),)
            raise
        finally:
            ex.depth -= 1
