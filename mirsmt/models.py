"""Closed table of library models for engine M (see DESIGN.md section 2.2).

Every model is a Python function (ex, info, args, dest_ty) -> value.  Models
may branch (`ex.branch`) and call closures (`ex.call_value`).  Callees with no
model and no MIR body are *havoced*: the result is a fresh unconstrained value
(an over-approximation of any pure function); they are listed in evidence.
A havoced callee that receives a `&mut` argument is refused (inconclusive).
"""
import re
import z3

from .mirparse import split_top
from .values import (UNIT, UNINIT, Cell, Lazy, Adt, Ref, FnItem, Obj, INT_BITS, strip_ref, generic_args, tuple_elems,
                     is_scalar, sort_of, bv, conc)
from .interp import Inconclusive, PathEnd
from . import tables as T

BV64 = z3.BitVecSort(64)

PTR_HEADS = ('Arc', 'Source', 'Box', 'Rc')


def head(ty):
    return T.type_name_hint(ty)[0]


class Models:
    def __init__(self, prog):
        self.prog = prog
        self.table = {}
        self.allow_havoc_mut = set()
        self.opaque_bodies = set()     # crate-local callees deliberately treated as havoc (listed in evidence)
        self.body_hooks = {}           # full body name -> python replacement (abstraction knob; listed in evidence)
        self.havoc_overrides = {}
        register_core(self)
        from . import models_async
        models_async.register(self)
        from . import models_iter
        models_iter.register(self)
        from . import models_store
        models_store.register(self)
        models_store.register_linked(self)
        models_store.register_btree(self)
        from . import models_sched
        models_sched.register(self)
        from . import models_user
        models_user.register(self)
        from . import models_text
        models_text.register(self)

    def reg(self, *keys):
        def deco(f):
            for k in keys:
                self.table[k] = f
            return f
        return deco

    def lookup(self, info):
        k = info['key']
        f = self.table.get(k)
        if f is None and len(info['segs']) >= 1:
            f = self.table.get('*::' + info['method']) if ('*::' + info['method']) in self.table and self._std_like(info) else None
        return f

    def _std_like(self, info):
        return True

    # ---------------------------------------------------------------- enum helpers
    def discr(self, ex, v, ty=None):
        v = ex.materialize(v, ty)
        if isinstance(v, Obj):
            return self.obj_discr(ex, v)
        if not isinstance(v, Adt):
            raise Inconclusive('discr of %r' % (v,))
        d = v.discr
        if d is None:
            if v.name is not None:
                return z3.Const(v.name + '.discr', BV64)
            return bv(0)
        return bv(d) if isinstance(d, int) else d

    def some(self, ty, v):
        return Adt(ty or 'Option<?>', {(1, 0): v}, 1, None)

    def none(self, ty):
        return Adt(ty or 'Option<?>', {}, 0, None)

    def payload(self, ex, v, variant=1, idx=0, fty='?'):
        return ex.field_of(v, variant, idx, fty)

    def is_some(self, ex, v):
        return ex.branch(self.discr(ex, v) == bv(1))

    def opt_payload_ty(self, ty):
        g = generic_args(ty or '')
        return g[0] if g else '?'

    def load(self, ex, r, ty=None):
        """read through a pointer-like value"""
        cell, path = ex.deref(r, ty)
        v = ex.read_path(cell, path)
        return v

    def mkref(self, v):
        return Ref(Cell(v), ())

    # ---------------------------------------------------------------- flatten (type directed)
    def shape(self, ty):
        ty = ty.strip()
        s = sort_of(ty)
        if s is not None:
            return ('s', s)
        if ty == '()':
            return ('unit',)
        te = tuple_elems(ty)
        if te is not None:
            return ('tuple', [self.shape(t) for t in te], te)
        h = head(ty)
        if strip_ref(ty) is not None or h in PTR_HEADS:
            return ('ptr', ty)
        if h == 'Option':
            p = generic_args(ty)[0]
            return ('opt', self.shape(p), p, ty)
        vs = self.prog.tables.enum_variants(ty)
        if vs is not None and all(v[1] == 0 for v in vs):
            return ('cenum', ty, len(vs))
        fl = self.prog.tables.struct_fields(ty)
        if fl == []:
            return ('unit',)
        if h in ('Duration', 'Instant'):
            return ('s', BV64)
        if isinstance(fl, list) and fl and generic_args(ty) in (None, []):
            # a plain struct all of whose fields are flat (e.g. gherkin::LineCol { line, col })
            name = re.sub(r'<.*', '', ty).split('::')[-1]
            cands = [d for (n_, rel), d in self.prog.tables.struct_field_types.items() if n_ == name and list(d) == list(fl)]
            if len(cands) == 1 and all(sort_of(cands[0][f_].strip()) is not None for f_ in fl):
                tys = [cands[0][f_].strip() for f_ in fl]
                return ('tuple', [self.shape(t_) for t_ in tys], tys)
        raise Inconclusive('no flat shape for type %s' % ty)

    def flatten(self, ex, v, sh):
        k = sh[0]
        if k == 's':
            v = ex.materialize(v)
            if isinstance(v, Obj) and v.kind == 'time':
                return [v.t]
            return [v]
        if k == 'unit':
            return []
        if k == 'ptr':
            return [self.pid(ex, v, sh[1])]
        if k == 'tuple':
            out = []
            for i, (s, t) in enumerate(zip(sh[1], sh[2])):
                out += self.flatten(ex, ex.field_of(v, None, i, t), s)
            return out
        if k == 'opt':
            d = self.discr(ex, v, sh[3])
            c = conc(z3.simplify(d))
            if c == 0:
                inner = [self.zero(s) for s in self.leaf_sorts(sh[1])]
            else:
                inner = self.flatten(ex, ex.field_of(v, 1, 0, sh[2]), sh[1])
                if c is None:
                    inner = [z3.If(d == bv(1), x, self.zero(x.sort())) for x in inner]
            return [d] + inner
        if k == 'cenum':
            return [self.discr(ex, v, sh[1])]
        raise Inconclusive('flatten %r' % (sh,))

    def zero(self, sort):
        return z3.BoolVal(False) if sort == z3.BoolSort() else z3.BitVecVal(0, sort.size())

    def leaf_sorts(self, sh):
        k = sh[0]
        if k == 's':
            return [sh[1]]
        if k == 'unit':
            return []
        if k == 'ptr':
            return [BV64]
        if k == 'tuple':
            out = []
            for s in sh[1]:
                out += self.leaf_sorts(s)
            return out
        if k == 'opt':
            return [BV64] + self.leaf_sorts(sh[1])
        if k == 'cenum':
            return [BV64]
        raise Inconclusive('leaf_sorts %r' % (sh,))

    def unflatten(self, ex, it, sh, tag):
        k = sh[0]
        if k == 's':
            return next(it)
        if k == 'unit':
            return UNIT
        if k == 'ptr':
            pid = next(it)
            inner = strip_ref(sh[1])
            name = 'at(%s)' % z3.simplify(pid).sexpr()
            heap = ex.env.setdefault('heap', {})
            cell = heap.get(('pid', name))
            if cell is None:
                cell = Cell(Lazy(inner or '?', name + '*'), name=name)
                heap[('pid', name)] = cell
            r = Ref(cell, (), pid=pid)
            if head(sh[1]) == 'Source':
                return Adt(sh[1], {(None, 0): r})
            return r
        if k == 'tuple':
            return Adt('tuple', {(None, i): self.unflatten(ex, it, s, tag) for i, s in enumerate(sh[1])})
        if k == 'opt':
            d = next(it)
            inner = self.unflatten(ex, it, sh[1], tag)
            return Adt(sh[3], {(1, 0): inner}, d, None)
        if k == 'cenum':
            return Adt(sh[1], {}, next(it), None)
        raise Inconclusive('unflatten %r' % (sh,))

    def pid(self, ex, v, ty=None):
        """pointer identity of an Arc / Source / reference value"""
        v = ex.materialize(v, ty)
        if isinstance(v, Adt) and (None, 0) in v.fields or (isinstance(v, Adt) and v.name is not None and head(v.ty) == 'Source'):
            inner = ex.field_of(v, None, 0, 'Arc<%s>' % (generic_args(v.ty) or ['?'])[0])
            return self.pid(ex, inner)
        if isinstance(v, Ref):
            if v.pid is not None:
                return v.pid
            return bv(0x7000000000000000 + v.cell.id * 4096 + (hash(v.path) & 0xfff))
        raise Inconclusive('pointer identity of %r' % (v,))

    def key_term(self, ex, v, ksh):
        leaves = self.flatten(ex, v, ksh)
        parts = []
        for x in leaves:
            parts.append(z3.If(x, bv(1, 8), bv(0, 8)) if z3.is_bool(x) else x)
        if len(parts) == 1:
            return z3.simplify(parts[0])
        return z3.simplify(z3.Concat(*parts))

    def key_from_term(self, ex, k, ksh):
        """inverse of key_term: the structured key value whose flattening is the bit-vector `k`"""
        sorts = self.leaf_sorts(ksh)
        sizes = [8 if s_ == z3.BoolSort() else s_.size() for s_ in sorts]
        pos = sum(sizes)
        leaves = []
        for s_, sz in zip(sorts, sizes):
            part = z3.Extract(pos - 1, pos - sz, k) if sum(sizes) > sz else k
            leaves.append(part != z3.BitVecVal(0, sz) if s_ == z3.BoolSort() else part)
            pos -= sz
        return self.unflatten(ex, iter(leaves), ksh, 'key')

    def retain_facts(self, ex, k):
        """`HashMap::retain` on an array-backed map is lazy: the new `present` array is a fresh array, and what it holds at
        a key is pinned down when that key is looked at - present'[k] = present[k] and predicate(k, value[k])"""
        done = ex.env.setdefault('retain_done', set())
        for i, rec in enumerate(ex.env.get('retained', [])):
            if rec['new'].sort().domain() != k.sort():
                continue
            tag = (i, k.sexpr())
            if tag in done:
                continue
            done.add(tag)
            m0 = rec['base']
            kval = self.key_from_term(ex, k, m0.ksh)
            vval = self.unflatten(ex, iter([z3.Select(a_, k) for a_ in m0.leaves]), m0.vsh, 'slot')
            vcell = Cell(vval)
            keep = ex.call_value(rec['closure'], [Ref(Cell(kval), ()), Ref(vcell, ())])
            if vcell.v is not vval:
                raise Inconclusive('HashMap::retain predicate writes to the value')
            ex.add(z3.Select(rec['new'], k) == z3.And(z3.Select(m0.present, k), keep))

    def key_sort(self, ksh):
        n = 0
        for s in self.leaf_sorts(ksh):
            n += 8 if s == z3.BoolSort() else s.size()
        return z3.BitVecSort(n)

    # ---------------------------------------------------------------- symbolic map (SMT arrays)
    def new_symmap(self, ex, name, kty, vty, empty=False):
        ksh, vsh = self.shape(kty), self.shape(vty)
        ks = self.key_sort(ksh)
        if empty:
            present = z3.K(ks, z3.BoolVal(False))
        else:
            present = z3.Const(name + '.present', z3.ArraySort(ks, z3.BoolSort()))
        leaves = tuple(z3.Const('%s.v%d' % (name, i), z3.ArraySort(ks, s)) for i, s in enumerate(self.leaf_sorts(vsh)))
        return Obj('symmap', kty=kty, vty=vty, ksh=ksh, vsh=vsh, present=present, leaves=leaves, name=name)

    def slot_read(self, ex, m, st):
        m = self._as_map(ex, m)
        if m.kind == 'symmap':
            k = st[1]
            return self.unflatten(ex, iter([z3.Select(a, k) for a in m.leaves]), m.vsh, 'slot')
        return self.assoc_slot_read(ex, m, st)

    def slot_write(self, ex, m, st, f):
        m = self._as_map(ex, m)
        if m.kind == 'symmap':
            k = st[1]
            cur = self.slot_read(ex, m, st)
            new = f(cur)
            vals = self.flatten(ex, new, m.vsh)
            return m.set(leaves=tuple(z3.Store(a, k, x) for a, x in zip(m.leaves, vals)))
        return self.assoc_slot_write(ex, m, st, f)

    def _as_map(self, ex, m):
        if isinstance(m, Lazy):
            h = head(m.ty)
            if h in ('HashMap',):
                g = generic_args(m.ty)
                return self.new_symmap(ex, m.name, g[0], g[1])
            raise Inconclusive('lazy %s used as a map' % m.ty)
        if isinstance(m, Obj) and m.kind in ('symmap', 'assoc'):
            return m
        raise Inconclusive('not a map: %r' % (m,))

    def _map_at(self, ex, mref):
        cell, path = ex.deref(mref)
        m = self._as_map(ex, ex.read_path(cell, path))
        return cell, path, m

    # ---------------------------------------------------------------- hooks used by the interpreter
    def obj_field(self, ex, v, variant, idx, fty):
        if v.kind == 'time':
            raise Inconclusive('field of time object')
        raise Inconclusive('field %s.%s of model object %s' % (variant, idx, v.kind))

    def obj_field_write(self, ex, v, st, upd, path, i, val):
        raise Inconclusive('write into model object %s' % v.kind)

    def obj_deref(self, ex, v):
        if v.kind == 'vec':
            return Ref(Cell(v), ())
        raise Inconclusive('deref of model object %s' % v.kind)

    def obj_discr(self, ex, v):
        raise Inconclusive('discriminant of model object %s' % v.kind)

    def index_read(self, ex, v, i):
        v = ex.materialize(v)
        if isinstance(v, Obj) and v.kind == 'vec':
            if isinstance(i, tuple):
                return v.items[len(v.items) - i[1]]
            c = conc(z3.simplify(i))
            if c is None:
                raise Inconclusive('symbolic index')
            if c >= len(v.items):
                raise PathEnd('panic', 'index out of bounds')
            return v.items[c]
        raise Inconclusive('index into %r' % (v,))

    def index_write(self, ex, v, i, f):
        if isinstance(v, Obj) and v.kind == 'vec':
            c = conc(z3.simplify(i))
            if c is None:
                raise Inconclusive('symbolic index')
            items = list(v.items)
            items[c] = f(items[c])
            return v.set(items=tuple(items))
        raise Inconclusive('index write into %r' % (v,))

    def length(self, ex, v):
        if isinstance(v, Obj) and v.kind == 'vec':
            return bv(len(v.items))
        raise Inconclusive('len of %r' % (v,))

    def call_opaque_fn(self, ex, f, args):
        raise Inconclusive('call of opaque function value %r' % (f,))

    def ctor(self, ex, frame, name, vals, dest_ty):
        segs = [s for s in split_top(name, '::') if s and not s.startswith('<')]
        if len(segs) >= 2:
            ety = '::'.join(segs[:-1])
            vs = self.prog.tables.enum_variants(ety)
            if vs is None and dest_ty:
                vs2 = self.prog.tables.enum_variants(dest_ty)
                if vs2 is not None and any(x[0] == segs[-1] for x in vs2):
                    vs = vs2
            if vs is not None:
                for i, x in enumerate(vs):
                    if x[0] == segs[-1]:
                        return Adt(dest_ty or ety, {(i, j): v for j, v in enumerate(vals)}, i, None)
        if dest_ty:
            vs = self.prog.tables.enum_variants(dest_ty)
            if vs is not None:
                for i, x in enumerate(vs):
                    if x[0] == segs[-1]:
                        return Adt(dest_ty, {(i, j): v for j, v in enumerate(vals)}, i, None)
        fl = self.prog.tables.struct_fields(name)
        if fl is not None or vals:
            if isinstance(fl, list) and fl and not vals:
                raise Inconclusive('ctor %s without fields' % name)
            return Adt(dest_ty or name, {(None, j): v for j, v in enumerate(vals)}, None, None)
        if not vals and segs and segs[0] in ('std', 'core', 'alloc'):
            return Adt(dest_ty or name, {}, None, 'opaque!' + name)      # unit value of a std type whose payload is never inspected
        raise Inconclusive('constructor %s' % name)

    def constant(self, ex, frame, t):
        m = re.match(r'(.*)::promoted\[(\d+)\]$', t)
        if m or re.match(r'.*promoted\[\d+\]', t):
            n = re.search(r'promoted\[(\d+)\]$', t).group(1)
            b = self.prog.bodies.get('%s::promoted[%s]' % (frame.body.name, n))
            if b is None:
                b = self.prog.bodies.get(t)
            if b is None:
                raise Inconclusive('promoted %s' % t)
            key = ('promoted', b.name)
            cache = ex.env.setdefault('promoted', {})
            if key not in cache:
                cache[key] = ex.call_body(b, [])
            return cache[key]
        am = re.match(r'^\{(alloc\d+): &', t)
        if am:
            # reference to a static: evaluate its initialiser body once per path
            from . import mirparse
            sname = mirparse.STATIC_ALLOCS.get(am.group(1))
            b = self.prog.bodies.get(sname) if sname else None
            if b is None:
                raise Inconclusive('static behind %s' % t)
            cache = ex.env.setdefault('statics', {})
            if sname not in cache:
                cache[sname] = Cell(ex.call_body(b, []), name='static ' + sname)
            return Ref(cache[sname], ())
        sm = re.match(r'^(.*?) \{\{ (.*) \}\}$', t, re.S)
        if sm:
            # struct constant `Path {{ f: v, .. }}`
            if re.sub(r'::<.*$', '', sm.group(1)).endswith('future::Pending') and hasattr(self, 'pending_future'):
                return self.pending_future()          # `future::pending()` const-evaluated
            fl = self.prog.tables.struct_fields(sm.group(1))
            if not isinstance(fl, list):
                raise Inconclusive('struct constant %r' % t)
            vals = {}
            for part in split_top(sm.group(2)):
                part = part.strip()
                if not part:
                    continue
                fname, fv = part.split(': ', 1)
                if fname not in fl:
                    raise Inconclusive('struct constant field %r' % part)
                vals[(None, fl.index(fname))] = frame.const(fv.strip())
            return Adt(sm.group(1), vals, None, None)
        if re.fullmatch(r'core::num::<impl (\w+)>::MAX', t):
            ty = re.fullmatch(r'core::num::<impl (\w+)>::MAX', t).group(1)
            return z3.BitVecVal(-1, INT_BITS[ty])
        # unit enum variant / unit struct constant
        segs = [s for s in split_top(t, '::') if s and not s.startswith('<')]
        if len(segs) >= 2:
            vs = self.prog.tables.enum_variants('::'.join(segs[:-1]))
            if vs is not None:
                for i, x in enumerate(vs):
                    if x[0] == segs[-1] and x[1] == 0:
                        return Adt('::'.join(segs[:-1]), {}, i, None)
        if re.match(r'[A-Za-z_<{]', t) and '(' not in t.split('::')[-1] and ' ' not in t.split('::')[-1].split('<')[0]:
            return FnItem(t)
        # fn item with generic arguments that contain parentheses / spaces: `std::mem::drop::<Result<(), Canceled>>`
        segs2 = [x for x in split_top(t, '::') if x]
        if re.match(r'[A-Za-z_]', t) and len(segs2) >= 2 and segs2[-1].startswith('<') and re.fullmatch(r'[A-Za-z_]\w*', segs2[-2]) and segs2[-2][0].islower():
            return FnItem(t)
        raise Inconclusive('constant %r' % t)

    # ---------------------------------------------------------------- havoc
    def uninterpreted(self, ex, info, args, dest_ty):
        key = info['key']
        # a tuple-variant / tuple-struct constructor used as a function value (`Poll::<V>::Ready`, `Some`, `Ok`)
        segs = [s for s in split_top(info['text'], '::') if s and not s.startswith('<')]
        if len(segs) >= 2 and args:
            vs = self.prog.tables.enum_variants('::'.join(segs[:-1]))
            if vs is not None:
                for i, x in enumerate(vs):
                    if x[0] == segs[-1] and x[1] == len(args):
                        return Adt(dest_ty or '::'.join(segs[:-1]), {(i, j): v for j, v in enumerate(args)}, i, None)
        frame = getattr(ex, 'cur_frame', None)
        ov = self.havoc_overrides.get(key)
        if ov is not None:
            return ov(ex, info, args, dest_ty)
        n = ex.env.get('havoc_n', 0) + 1
        ex.env['havoc_n'] = n
        ex.stats.uninterp.add(info['text'][:160])
        if info.get('mut_arg') and key not in self.allow_havoc_mut:
            raise Inconclusive('uninterpreted callee with &mut argument: %s' % info['text'][:200])
        if dest_ty is None or dest_ty.strip() == '()':
            return UNIT
        if dest_ty.strip() == '!':
            raise PathEnd('panic', 'diverging %s' % key)
        return Lazy(dest_ty, 'havoc!%s!%d' % (info['method'], n))


def register_core(M):
    reg = M.reg

    # ------------------------------------------------------------ Option
    @reg('Option::is_some')
    def _(ex, info, a, dty):
        return M.discr(ex, M.load(ex, a[0])) == bv(1)

    @reg('Option::is_none')
    def _(ex, info, a, dty):
        return M.discr(ex, M.load(ex, a[0])) == bv(0)

    @reg('Option::filter')
    def _(ex, info, a, dty):
        o = ex.materialize(a[0], dty)
        if not M.is_some(ex, o):
            return M.none(dty)
        p = M.payload(ex, o, fty=M.opt_payload_ty(dty))
        r = ex.call_value(a[1], [M.mkref(p)])
        return o.with_discr(1) if ex.branch(r) else M.none(dty)

    @reg('Option::is_some_and', 'Option::is_none_or')
    def _(ex, info, a, dty):
        o = ex.materialize(a[0])
        some = M.is_some(ex, o)
        if info['method'] == 'is_none_or':
            if not some:
                return z3.BoolVal(True)
        elif not some:
            return z3.BoolVal(False)
        return ex.call_value(a[1], [M.payload(ex, o, fty=M.opt_payload_ty(o.ty))])

    @reg('Option::map')
    def _(ex, info, a, dty):
        o = ex.materialize(a[0])
        if not M.is_some(ex, o):
            return M.none(dty)
        return M.some(dty, ex.call_value(a[1], [M.payload(ex, o, fty=M.opt_payload_ty(o.ty))]))

    @reg('Option::and_then')
    def _(ex, info, a, dty):
        o = ex.materialize(a[0])
        if not M.is_some(ex, o):
            return M.none(dty)
        return ex.call_value(a[1], [M.payload(ex, o, fty=M.opt_payload_ty(o.ty))])

    @reg('Option::flatten')
    def _(ex, info, a, dty):
        o = ex.materialize(a[0])
        if not M.is_some(ex, o):
            return M.none(dty)
        return M.payload(ex, o, fty=dty)

    @reg('Option::xor')
    def _(ex, info, a, dty):
        o1, o2 = ex.materialize(a[0], dty), ex.materialize(a[1], dty)
        s1, s2 = M.is_some(ex, o1), M.is_some(ex, o2)
        if s1 and not s2:
            return o1.with_discr(1)
        if s2 and not s1:
            return o2.with_discr(1)
        return M.none(dty)

    @reg('Option::and')
    def _(ex, info, a, dty):
        o = ex.materialize(a[0])
        return a[1] if M.is_some(ex, o) else M.none(dty)

    @reg('Option::or')
    def _(ex, info, a, dty):
        o = ex.materialize(a[0], dty)
        return o.with_discr(1) if M.is_some(ex, o) else a[1]

    @reg('Option::or_else')
    def _(ex, info, a, dty):
        o = ex.materialize(a[0], dty)
        return o.with_discr(1) if M.is_some(ex, o) else ex.call_value(a[1], [])

    @reg('Result::unwrap_or')
    def _(ex, info, a, dty):
        r = ex.materialize(a[0])
        if ex.branch(M.discr(ex, r) == bv(0)):
            return ex.field_of(r, 0, 0, dty or '?')
        return a[1]

    @reg('Option::unwrap_or')
    def _(ex, info, a, dty):
        o = ex.materialize(a[0])
        return M.payload(ex, o, fty=dty) if M.is_some(ex, o) else a[1]

    @reg('Option::unwrap_or_else')
    def _(ex, info, a, dty):
        o = ex.materialize(a[0])
        return M.payload(ex, o, fty=dty) if M.is_some(ex, o) else ex.call_value(a[1], [])

    @reg('Option::map_or_else')
    def _(ex, info, a, dty):
        o = ex.materialize(a[0])
        if M.is_some(ex, o):
            return ex.call_value(a[2], [M.payload(ex, o, fty=M.opt_payload_ty(o.ty))])
        return ex.call_value(a[1], [])

    @reg('Option::map_or')
    def _(ex, info, a, dty):
        o = ex.materialize(a[0])
        if M.is_some(ex, o):
            return ex.call_value(a[2], [M.payload(ex, o, fty=M.opt_payload_ty(o.ty))])
        return a[1]

    @reg('Option::unwrap', 'Option::expect')
    def _(ex, info, a, dty):
        o = ex.materialize(a[0])
        if not M.is_some(ex, o):
            raise PathEnd('panic', 'unwrap on None')
        return M.payload(ex, o, fty=dty)

    @reg('Result::unwrap', 'Result::expect')
    def _(ex, info, a, dty):
        o = ex.materialize(a[0])
        if not ex.branch(M.discr(ex, o) == bv(0)):
            raise PathEnd('panic', 'unwrap on Err')
        return M.payload(ex, o, 0, 0, fty=dty)

    @reg('Option::as_ref', 'Option::as_mut')
    def _(ex, info, a, dty):
        cell, path = ex.deref(a[0])
        o = ex.materialize(ex.read_path(cell, path))
        if isinstance(o, Lazy) or not isinstance(o, Adt):
            raise Inconclusive('as_ref on %r' % (o,))
        d = M.discr(ex, o)
        pty = M.opt_payload_ty(o.ty)
        return Adt(dty, {(1, 0): Ref(cell, path + (('f', 1, 0, pty),))}, d, None)

    @reg('Option::take')
    def _(ex, info, a, dty):
        cell, path = ex.deref(a[0])
        o = ex.read_path(cell, path)
        ex.write_path(cell, path, M.none(dty))
        return o

    @reg('Option::unwrap_or_default')
    def _(ex, info, a, dty):
        o = ex.materialize(a[0])
        return M.payload(ex, o, fty=dty) if M.is_some(ex, o) else M.default_value(ex, dty)

    @reg('Option::then', 'bool::then', '<impl>::then')
    def _(ex, info, a, dty):
        if ex.branch(a[0]):
            return M.some(dty, ex.call_value(a[1], []))
        return M.none(dty)

    @reg('Option::then_some', 'bool::then_some', '<impl>::then_some')
    def _(ex, info, a, dty):
        return M.some(dty, a[1]) if ex.branch(a[0]) else M.none(dty)

    @reg('Option::zip')
    def _(ex, info, a, dty):
        o1, o2 = ex.materialize(a[0]), ex.materialize(a[1])
        if M.is_some(ex, o1) and M.is_some(ex, o2):
            return M.some(dty, Adt('tuple', {(None, 0): M.payload(ex, o1), (None, 1): M.payload(ex, o2)}))
        return M.none(dty)

    @reg('Option::cloned', 'Option::copied')
    def _(ex, info, a, dty):
        o = ex.materialize(a[0])
        if not M.is_some(ex, o):
            return M.none(dty)
        return M.some(dty, M.load(ex, M.payload(ex, o)))

    @reg('Option::ok_or', 'Option::ok_or_else')
    def _(ex, info, a, dty):
        o = ex.materialize(a[0])
        if M.is_some(ex, o):
            return Adt(dty, {(0, 0): M.payload(ex, o)}, 0, None)
        e = a[1] if info['method'] == 'ok_or' else ex.call_value(a[1], [])
        return Adt(dty, {(1, 0): e}, 1, None)

    @reg('Option::iter', 'Option::iter_mut')
    def _(ex, info, a, dty):
        o = ex.materialize(M.load(ex, a[0]))
        cell, path = ex.deref(a[0])
        if M.is_some(ex, o):
            return Obj('iter', items=(Ref(cell, path + (('f', 1, 0, M.opt_payload_ty(o.ty)),)),), ty=dty)
        return Obj('iter', items=(), ty=dty)

    # ------------------------------------------------------------ `?` operator
    @reg('Try::branch')
    def _(ex, info, a, dty):
        o = ex.materialize(a[0], info['self_ty'])
        h = head(info['self_ty'] or (o.ty if isinstance(o, Adt) else ''))
        d = M.discr(ex, o)
        if h == 'Option':
            if ex.branch(d == bv(1)):
                return Adt(dty or 'ControlFlow<?>', {(0, 0): M.payload(ex, o, fty=M.opt_payload_ty(info['self_ty'] or ''))}, 0, None)
            return Adt(dty or 'ControlFlow<?>', {(1, 0): M.none('Option<Infallible>')}, 1, None)
        if h == 'Result':
            g = generic_args(info['self_ty'] or '')
            if ex.branch(d == bv(0)):
                return Adt(dty or 'ControlFlow<?>', {(0, 0): ex.field_of(o, 0, 0, g[0] if g else '?')}, 0, None)
            res = Adt('Result<Infallible, E>', {(1, 0): ex.field_of(o, 1, 0, g[1] if len(g) > 1 else '?')}, 1, None)
            return Adt(dty or 'ControlFlow<?>', {(1, 0): res}, 1, None)
        raise Inconclusive('Try::branch on %s' % info['self_ty'])

    @reg('FromResidual::from_residual')
    def _(ex, info, a, dty):
        h = head(info['self_ty'] or dty or '')
        if h == 'Option':
            return M.none(dty)
        if h == 'Result':
            r = ex.materialize(a[0])
            return Adt(dty, {(1, 0): ex.field_of(r, 1, 0, '?')}, 1, None)
        raise Inconclusive('from_residual on %s' % info['self_ty'])

    # ------------------------------------------------------------ Result
    @reg('Result::is_err')
    def _(ex, info, a, dty):
        return M.discr(ex, M.load(ex, a[0])) == bv(1)

    @reg('Result::is_ok')
    def _(ex, info, a, dty):
        return M.discr(ex, M.load(ex, a[0])) == bv(0)

    @reg('Result::ok')
    def _(ex, info, a, dty):
        o = ex.materialize(a[0])
        if ex.branch(M.discr(ex, o) == bv(0)):
            return M.some(dty, ex.field_of(o, 0, 0, M.opt_payload_ty(dty)))
        return M.none(dty)

    @reg('Result::err')
    def _(ex, info, a, dty):
        o = ex.materialize(a[0])
        if ex.branch(M.discr(ex, o) == bv(1)):
            return M.some(dty, ex.field_of(o, 1, 0, M.opt_payload_ty(dty)))
        return M.none(dty)

    @reg('Result::map_or_else')
    def _(ex, info, a, dty):
        o = ex.materialize(a[0])
        if ex.branch(M.discr(ex, o) == bv(0)):
            return ex.call_value(a[2], [ex.field_of(o, 0, 0, '?')])
        return ex.call_value(a[1], [ex.field_of(o, 1, 0, '?')])

    @reg('Result::and_then')
    def _(ex, info, a, dty):
        o = ex.materialize(a[0])
        if ex.branch(M.discr(ex, o) == bv(0)):
            return ex.call_value(a[1], [ex.field_of(o, 0, 0, '?')])
        return Adt(dty, {(1, 0): ex.field_of(o, 1, 0, '?')}, 1, None)

    @reg('Result::or_else')
    def _(ex, info, a, dty):
        o = ex.materialize(a[0])
        if ex.branch(M.discr(ex, o) == bv(0)):
            return Adt(dty, {(0, 0): ex.field_of(o, 0, 0, '?')}, 0, None)
        return ex.call_value(a[1], [ex.field_of(o, 1, 0, '?')])

    @reg('hint::must_use', 'must_use')
    def _(ex, info, a, dty):
        return a[0]

    @reg('Result::map_err')
    def _(ex, info, a, dty):
        o = ex.materialize(a[0])
        if ex.branch(M.discr(ex, o) == bv(0)):
            return Adt(dty, {(0, 0): ex.field_of(o, 0, 0, '?')}, 0, None)
        return Adt(dty, {(1, 0): ex.call_value(a[1], [ex.field_of(o, 1, 0, '?')])}, 1, None)

    @reg('Result::map')
    def _(ex, info, a, dty):
        o = ex.materialize(a[0])
        if ex.branch(M.discr(ex, o) == bv(0)):
            return Adt(dty, {(0, 0): ex.call_value(a[1], [ex.field_of(o, 0, 0, '?')])}, 0, None)
        return Adt(dty, {(1, 0): ex.field_of(o, 1, 0, '?')}, 1, None)

    @reg('Result::unwrap_or_else')
    def _(ex, info, a, dty):
        o = ex.materialize(a[0])
        if ex.branch(M.discr(ex, o) == bv(0)):
            return ex.field_of(o, 0, 0, dty)
        return ex.call_value(a[1], [ex.field_of(o, 1, 0, '?')])

    # ------------------------------------------------------------ pointers / conversions
    @reg('Deref::deref', 'DerefMut::deref_mut', 'AsRef::as_ref', 'AsMut::as_mut', 'Borrow::borrow', 'Pin::get_mut',
         'Pin::as_mut', 'Pin::get_ref', 'Pin::into_inner', 'Pin::get_unchecked_mut', 'Pin::into_ref')
    def _(ex, info, a, dty):
        st = head(info['self_ty'] or '')
        v = ex.materialize(a[0])
        sty = (info['self_ty'] or '').strip()
        if info['key'] in ('AsRef::as_ref', 'AsMut::as_mut', 'Borrow::borrow') and sty.startswith('&') and isinstance(v, Ref):
            # blanket impl for references: `<&T as AsRef<U>>::as_ref(&&T)` = `T::as_ref(&T)`
            inner = ex.read_path(v.cell, v.path)
            if isinstance(ex.materialize(inner), Ref):
                i2 = dict(info)
                i2['self_ty'] = strip_ref(sty) or sty
                i2['text'] = '<%s as %s>::%s' % (i2['self_ty'], info.get('trait') or 'AsRef', info['method'])
                return M.table[info['key']](ex, i2, [ex.materialize(inner)] + list(a[1:]), dty)
        if info['key'] == 'AsRef::as_ref' and 'str' in generic_args(info['trait'] or ''):
            return v          # &String / &&String / &str viewed as &str: same symbolic string
        if info['key'].startswith('Pin::'):
            if info['method'] == 'as_mut':
                # Pin<&mut Pin<P>> -> Pin<&mut T>: reborrow
                inner = M.load(ex, a[0])
                return inner
            if isinstance(v, Adt):
                return ex.field_of(v, None, 0, '?')
            return v
        if st in ('Vec', 'String', 'PathBuf'):
            return v          # &Vec<T> -> &[T]: same object
        if st == 'LazyLock':
            return M.force_lazy(ex, a[0])
        if st in ('Ref', 'RefMut') and isinstance(ex.materialize(M.load(ex, a[0])), Adt):
            return ex.materialize(M.load(ex, a[0])).fields[(None, 0)]       # std::cell::Ref / RefMut guard
        if st == 'MutexGuard':
            g = ex.materialize(M.load(ex, a[0]))
            return g.fields[(None, 0)]
        if st in ('Arc', 'Box', 'Rc', 'Pin'):
            cell, path = ex.deref(a[0])
            cell, path = ex.deref(ex.read_path(cell, path), info['self_ty'])
            return Ref(cell, path)
        body = ex.prog.resolve(info)
        if body is not None:
            return ex.call_body(body, a)
        if st == 'Source':
            cell, path = ex.deref(a[0])
            cell, path = ex.deref(ex.read_path(cell, path), info['self_ty'])
            return Ref(cell, path)
        if isinstance(v, Ref):
            tgt = ex.read_path(v.cell, v.path)
            while isinstance(tgt, Ref):
                v, tgt = tgt, ex.read_path(tgt.cell, tgt.path)
            if isinstance(tgt, Obj) and tgt.kind in ('vec', 'str', 'symstr'):
                return v      # generic AsRef<[T]> / AsRef<str> on a (reference to a) vector / string: the same object
        return M.uninterpreted(ex, info, a, dty)

    @reg('Pin::new_unchecked', 'Pin::new', 'Into::into', 'From::from', 'IntoFuture::into_future',
         'IntoIterator::into_iter', 'convert::identity')
    def _(ex, info, a, dty):
        if info['key'] in ('Into::into', 'From::from'):
            body = ex.prog.resolve(info)
            if body is not None:
                return ex.call_body(body, a)
            if info['key'] == 'Into::into' and info.get('trait'):
                tg = generic_args(info['trait'])
                if tg:
                    i2 = dict(info)
                    i2.update({'text': '<%s as From<%s>>::from' % (tg[0], info['self_ty']), 'self_ty': tg[0],
                               'trait': 'From<%s>' % info['self_ty'], 'method': 'from', 'key': 'From::from'})
                    cands = [b for (t, b) in ex.prog.by_method.get((head(tg[0]), 'from'), []) if t == 'From']
                    src = head(info['self_ty'] or '')
                    cands = [b for b in cands if head(b.params[0][1]) == src]
                    if len(cands) == 1:
                        return ex.call_body(cands[0], a)
            s, d = (info['self_ty'] or ''), (dty or '')
            # impls generated by a derive (`#[derive(From)]`) are bodies without an entry in the source-level impl table:
            # found by signature - one parameter of the source type, returning the target type
            src_h = head(s) if info['key'] == 'Into::into' else None
            if src_h is not None and (s.strip().startswith('impl ') or re.fullmatch(r'[A-Z]\w{0,2}', s.strip() or 'x')):
                v_ = ex.materialize(a[0])          # generic code (`impl Into<X>`, `T`): the value's own type decides
                src_h = head(v_.ty) if isinstance(v_, Adt) and v_.ty else None
            dst_h = head((generic_args(info['trait'] or '') or [d])[0]) if info['key'] == 'Into::into' else head(s or d)
            if info['key'] == 'From::from':
                v_ = ex.materialize(a[0])
                src_h = head(v_.ty) if isinstance(v_, Adt) and v_.ty else None
            if src_h and dst_h and src_h != dst_h and dst_h not in ('Arc', 'Box', 'Option', 'String', 'Vec'):
                cands = [b for n_, b in ex.prog.bodies.items() if n_.endswith('>::from') and len(b.params) == 1
                         and head(b.params[0][1]) == src_h and head(b.ret_type or '') == dst_h]
                if len(cands) == 1:
                    return ex.call_body(cands[0], a)
            v0 = ex.materialize(a[0])
            if info['key'] == 'Into::into' and isinstance(v0, Obj) and v0.kind == 'panic_payload' and head(d) == 'Arc':
                return Ref(Cell(Obj('payload_value', tag=v0.tag, ty=v0.ty)), (), pid=bv(0x6000000000000000 + Cell._n * 64))
            if info['key'] == 'From::from' and not d:
                d = s            # called through a fn item (`.map_err(Info::from)`): the target is the impl's self type
            if info['key'] == 'From::from' and head(d) in ('Arc', 'Box'):
                v0 = ex.materialize(a[0])
                if isinstance(v0, Obj) and v0.kind == 'panic_payload' and head(d) == 'Arc':
                    # Arc<dyn Any>::from(Box<dyn Any>): the content moves over, its concrete type stays what it was
                    v0 = Obj('payload_value', tag=v0.tag, ty=v0.ty)
                return Ref(Cell(v0), (), pid=bv(0x6000000000000000 + Cell._n * 64))
        if info['key'] in ('Pin::new_unchecked', 'Pin::new'):
            return Adt(dty or 'Pin<?>', {(None, 0): a[0]}, None, None)
        if info['key'] == 'IntoIterator::into_iter':
            return M.into_iter(ex, info, a[0], dty)
        return a[0]

    @reg('Clone::clone')
    def _(ex, info, a, dty):
        body = ex.prog.resolve(info)
        st = head(info['self_ty'] or '')
        if body is not None and st not in ('Source',):
            return ex.call_body(body, a)
        if body is None and st not in ('Source', 'Result', 'Option', 'Arc', 'Vec', 'String', 'Box'):
            # generic code (`T::clone` inside a derive): dispatch on the value's own type
            v0 = ex.materialize(M.load(ex, a[0]))
            if isinstance(v0, Adt) and v0.ty:
                i0 = dict(info)
                i0.update({'self_ty': v0.ty, 'text': '<%s as Clone>::clone' % v0.ty})
                b0 = ex.prog.resolve(i0)
                if b0 is not None:
                    return ex.call_body(b0, a)
        if st in ('Result', 'Option'):
            # std's Clone for Option / Result clones the payload with the payload type's own impl (which may be a
            # hand-written one of the crate)
            v = ex.materialize(M.load(ex, a[0]))
            g = generic_args(info['self_ty'] or '')
            if isinstance(v, Adt) and g and any(k[0] is not None for k in v.fields):
                if st == 'Option':
                    variants = [(1, g[0])]
                else:
                    variants = [(0, g[0])] + ([(1, g[1])] if len(g) > 1 else [])
                for var, pty in variants:
                    if (var, 0) not in v.fields:
                        continue
                    i2 = dict(info)
                    i2.update({'self_ty': pty, 'text': '<%s as Clone>::clone' % pty, 'trait': 'Clone', 'method': 'clone', 'key': 'Clone::clone'})
                    if ex.prog.resolve(i2) is None and head(pty) not in ('Result', 'Option'):
                        continue
                    d = M.discr(ex, v)
                    if z3.is_bv_value(z3.simplify(d)) and z3.simplify(d).as_long() != var:
                        continue
                    if not z3.is_bv_value(z3.simplify(d)) and not ex.branch(d == bv(var)):
                        continue
                    pc = M.table['Clone::clone'](ex, i2, [Ref(Cell(v.fields[(var, 0)]), ())], pty)
                    return v.with_field((var, 0), pc)
            return v
        return M.load(ex, a[0])

    @reg('Clone::clone_from')
    def _(ex, info, a, dty):
        cell, path = ex.deref(a[0])
        ex.write_path(cell, path, M.load(ex, a[1]))       # values are immutable: cloning is sharing
        return UNIT

    @reg('Default::default')
    def _(ex, info, a, dty):
        # std containers / cells: the empty value; everything else: the crate's own impl (or havoc)
        st = (info.get('self_ty') or '').strip()
        if head(st) in ('RefCell', 'Cell', 'Mutex', 'HashMap', 'HashSet', 'Vec', 'Option', 'BTreeMap', 'String') or sort_of(st) is not None:
            try:
                return M.default_value(ex, st)
            except Inconclusive:
                pass
        body = ex.prog.resolve(info)
        if body is not None:
            return ex.call_body(body, list(a))
        return M.uninterpreted(ex, info, a, dty)

    @reg('RefCell::new', 'Cell::new')
    def _(ex, info, a, dty):
        return Adt(dty or 'RefCell<?>', {(None, 0): a[0]})

    @reg('RefCell::take', 'Cell::take')
    def _(ex, info, a, dty):
        cell, path = ex.deref(a[0])
        inner_path = path + (('f', None, 0, '?'),)
        v = ex.read_path(cell, inner_path)
        g = generic_args(info.get('self_ty') or '') or [dty or '?']
        ex.write_path(cell, inner_path, M.default_value(ex, dty or g[0]))
        return v

    @reg('RefCell::replace', 'Cell::replace', 'Cell::set')
    def _(ex, info, a, dty):
        cell, path = ex.deref(a[0])
        inner_path = path + (('f', None, 0, '?'),)
        v = ex.read_path(cell, inner_path)
        ex.write_path(cell, inner_path, a[1])
        return UNIT if info['method'] == 'set' else v

    @reg('RefCell::borrow', 'RefCell::borrow_mut')
    def _(ex, info, a, dty):
        cell, path = ex.deref(a[0])
        return Adt('RefMut<?>' if info['method'] == 'borrow_mut' else 'Ref<?>', {(None, 0): Ref(cell, path + (('f', None, 0, '?'),))})

    @reg('Drop::drop')
    def _(ex, info, a, dty):
        body = ex.prog.resolve(info)
        if body is not None:
            return ex.call_body(body, a)
        return UNIT       # explicit drop glue of a library type (e.g. the emptied Box after `*boxed` was moved out)

    @reg('Arc::new', 'Box::new', 'Rc::new', 'Box::pin', 'Arc::pin')
    def _(ex, info, a, dty):
        c = Cell(a[0])
        r = Ref(c, (), pid=bv(0x6000000000000000 + c.id * 64))
        if info['method'] == 'pin':
            return Adt(dty or 'Pin<?>', {(None, 0): r}, None, None)
        return r

    @reg('Arc::ptr_eq')
    def _(ex, info, a, dty):
        x = M.pid(ex, M.load(ex, a[0]))
        y = M.pid(ex, M.load(ex, a[1]))
        return x == y

    @reg('mem::take')
    def _(ex, info, a, dty):
        cell, path = ex.deref(a[0])
        old = ex.read_path(cell, path)
        ex.write_path(cell, path, M.default_value(ex, dty))
        return old

    @reg('mem::replace')
    def _(ex, info, a, dty):
        cell, path = ex.deref(a[0])
        old = ex.read_path(cell, path)
        ex.write_path(cell, path, a[1])
        return old

    @reg('mem::drop', 'mem::forget')
    def _(ex, info, a, dty):
        return UNIT

    @reg('cmp::max', 'cmp::min', 'Ord::max', 'Ord::min')
    def _(ex, info, a, dty):
        x, y = ex.materialize(a[0]), ex.materialize(a[1])
        if isinstance(x, Adt) or isinstance(y, Adt):
            # Option<scalar>: None < Some(_), Some ordered by payload (derived Ord)
            dx, dy = M.discr(ex, x), M.discr(ex, y)
            def pay(v, d):
                if conc(z3.simplify(d)) == 0:
                    return bv(0)
                p = ex.materialize(ex.field_of(v, 1, 0, 'usize'), 'usize')
                if not z3.is_bv(p):
                    raise Inconclusive('cmp::min/max on %r' % (v,))
                return p
            px, py = pay(x, dx), pay(y, dy)
            lt = z3.Or(z3.ULT(dx, dy), z3.And(dx == dy, dx == bv(1), z3.ULT(px, py)))
            pick_x = lt if info['method'] == 'min' else z3.Not(lt)
            # std: min returns the first argument on ties, max the second
            if info['method'] == 'min':
                pick_x = z3.Or(lt, z3.And(dx == dy, z3.Or(dx == bv(0), px == py)))
            return x if ex.branch(pick_x) else y
        if info['method'] == 'max':
            return z3.If(z3.UGT(x, y), x, y)
        return z3.If(z3.ULT(x, y), x, y)

    @reg('Duration::checked_sub')
    def _(ex, info, a, dty):
        x, y = ex.materialize(a[0]), ex.materialize(a[1])
        if ex.branch(z3.UGE(x, y)):
            return M.some(dty, x - y)
        return M.none(dty)

    @reg('Instant::elapsed')
    def _(ex, info, a, dty):
        # time elapsed since `instant`: any value (the clock is symbolic); recorded for the harness
        inst = ex.materialize(M.load(ex, a[0]))
        e = ex.fresh('elapsed', BV64)
        ex.env.setdefault('elapsed', []).append((inst, e))
        return e

    @reg('Instant::now')
    def _(ex, info, a, dty):
        t = ex.fresh('now', BV64)
        last = ex.env.get('clock')
        if last is not None:
            ex.add(z3.UGE(t, last))
        ex.env['clock'] = t
        ex.env.setdefault('now_calls', []).append(t)
        return t

    def _scalar(ex, v):
        v = ex.materialize(v)
        for _ in range(3):
            if isinstance(v, Ref):
                v = ex.materialize(ex.read_path(v.cell, v.path))
        return v

    # Instant / Duration arithmetic on the 64-bit nanosecond abstraction (instants and durations of a run are far from 2^64:
    # `Instant + Duration` does not wrap in the model's value range, std panics on overflow)
    @reg('Add::add', 'Sub::sub')
    def _(ex, info, a, dty):
        st = info.get('self_ty') or ''
        if not (st.endswith('Instant') or st.endswith('Duration')):
            return M.uninterpreted(ex, info, a, dty)
        x, y = ex.materialize(a[0]), ex.materialize(a[1])
        if not (z3.is_bv(x) and z3.is_bv(y)):
            return M.uninterpreted(ex, info, a, dty)
        if info['method'] == 'add':
            # assumption (stated in DESIGN.md): no overflow - a run's instants and configured delays are far from 2^64 ns
            ex.add(z3.UGE(x + y, x))
            return x + y
        if ex.branch(z3.ULT(x, y)):
            if st.endswith('Duration'):
                raise PathEnd('panic', 'overflow when subtracting durations')
            return bv(0)                      # Instant - Instant saturates (std since 1.60)
        return x - y

    @reg('Instant::saturating_duration_since', 'Instant::duration_since')
    def _(ex, info, a, dty):
        x, y = _scalar(ex, a[0]), _scalar(ex, a[1])
        return z3.If(z3.UGT(x, y), x - y, bv(0))

    @reg('Instant::checked_duration_since')
    def _(ex, info, a, dty):
        x, y = _scalar(ex, a[0]), _scalar(ex, a[1])
        if ex.branch(z3.UGE(x, y)):
            return M.some(dty, x - y)
        return M.none(dty)

    @reg('Instant::checked_add', 'Duration::checked_add')
    def _(ex, info, a, dty):
        x, y = _scalar(ex, a[0]), _scalar(ex, a[1])
        if ex.branch(z3.ULT(x + y, x)):
            return M.none(dty)
        return M.some(dty, x + y)

    @reg('Duration::is_zero')
    def _(ex, info, a, dty):
        x = ex.materialize(a[0])
        if isinstance(x, Ref):
            x = ex.materialize(ex.read_path(x.cell, x.path))
        return x == bv(0)

    @reg('<impl>::checked_sub')
    def _(ex, info, a, dty):
        x, y = a
        if not z3.is_bv(x):
            raise Inconclusive('checked_sub on non-int')
        if ex.branch(z3.UGE(x, y)):
            return M.some(dty, x - y)
        return M.none(dty)

    @reg('<impl>::saturating_sub')
    def _(ex, info, a, dty):
        x, y = a
        return z3.If(z3.UGE(x, y), x - y, bv(0, x.size()))

    # ------------------------------------------------------------ slices / vec (lazy part)
    @reg('<impl>::get', 'Vec::get')
    def _(ex, info, a, dty):
        cell, path = ex.deref(a[0])
        v = ex.read_path(cell, path)
        while isinstance(v, Ref):
            cell, path = v.cell, v.path
            v = ex.read_path(cell, path)
        if not (isinstance(v, Obj) and v.kind == 'vec') or not z3.is_bv(ex.materialize(a[1])):
            return M.uninterpreted(ex, info, a, dty)
        idx = ex.materialize(a[1])
        for i in range(len(v.items)):
            if ex.branch(idx == bv(i)):
                return M.some(dty, Ref(cell, path + (('idx', bv(i)),)))
        return M.none(dty)

    @reg('<impl>::last', '<impl>::first')
    def _(ex, info, a, dty):
        cell, path = ex.deref(a[0])
        v = ex.read_path(cell, path)
        if isinstance(v, Obj) and v.kind == 'vec':
            if not v.items:
                return M.none(dty)
            i = len(v.items) - 1 if info['method'] == 'last' else 0
            return M.some(dty, Ref(cell, path + (('idx', bv(i)),)))
        if isinstance(v, Lazy):
            n = ex.env.get('havoc_n', 0) + 1
            ex.env['havoc_n'] = n
            return Lazy(dty, '%s.%s' % (v.name, info['method']))
        raise Inconclusive('last() on %r' % (v,))

    # ------------------------------------------------------------ equality on opaque values
    @reg('PartialEq::eq', 'PartialEq::ne')
    def _(ex, info, a, dty):
        sty0 = (info['self_ty'] or '').strip()
        if sty0.startswith('&') and strip_ref(sty0) and not strip_ref(sty0).strip().startswith(('str', '[')):
            # blanket `impl PartialEq<&B> for &A`: compare the referents
            x, y = ex.materialize(a[0]), ex.materialize(a[1])
            if isinstance(x, Ref) and isinstance(y, Ref):
                x1, y1 = ex.materialize(ex.read_path(x.cell, x.path)), ex.materialize(ex.read_path(y.cell, y.path))
                if isinstance(x1, Ref) and isinstance(y1, Ref):
                    i2 = dict(info)
                    i2['self_ty'] = strip_ref(sty0)
                    i2['text'] = '<%s as PartialEq>::%s' % (i2['self_ty'], info['method'])
                    return M.table[info['key']](ex, i2, [x1, y1], dty)
        body = ex.prog.resolve(info)
        if body is not None:
            return ex.call_body(body, a)
        st = (info['self_ty'] or '').strip()
        try:
            sh = M.shape(st)
        except Inconclusive:
            sh = None
        if sh is not None and sh[0] in ('s', 'opt', 'tuple', 'cenum', 'unit') and 'ptr' not in repr(sh):
            x = M.flatten(ex, M.load(ex, a[0]), sh)
            y = M.flatten(ex, M.load(ex, a[1]), sh)
            r = z3.And(*[p == q for p, q in zip(x, y)]) if x else z3.BoolVal(True)
            return r if info['method'] == 'eq' else z3.Not(r)
        if re.sub(r'[&\s]', '', st) in ('std::string::String', 'String', 'str'):
            r = M.str_eq(ex, info, a, dty)
            return r if info['method'] == 'eq' else z3.Not(r)
        r = M.opaque_eq(ex, st, a[0], a[1])
        return r if info['method'] == 'eq' else z3.Not(r)

    # ------------------------------------------------------------ HashMap (symbolic / assoc)
    @reg('HashMap::get', 'HashMap::get_mut')
    def _(ex, info, a, dty):
        cell, path, m = M._map_at(ex, a[0])
        if m.kind == 'assoc':
            return M.assoc_get(ex, cell, path, m, M.load(ex, a[1]), dty)
        k = M.key_term(ex, M.load(ex, a[1]), m.ksh)
        M.retain_facts(ex, k)
        ex.write_path(cell, path, m)
        d = z3.If(z3.Select(m.present, k), bv(1), bv(0))
        return Adt(dty, {(1, 0): Ref(cell, path + (('slot', k),))}, z3.simplify(d), None)

    @reg('HashMap::contains_key')
    def _(ex, info, a, dty):
        cell, path, m = M._map_at(ex, a[0])
        if m.kind == 'assoc':
            o = M.assoc_get(ex, cell, path, m, M.load(ex, a[1]), 'Option<?>')
            return M.discr(ex, o) == bv(1)
        k = M.key_term(ex, M.load(ex, a[1]), m.ksh)
        M.retain_facts(ex, k)
        return z3.Select(m.present, k)

    @reg('HashMap::insert')
    def _(ex, info, a, dty):
        cell, path, m = M._map_at(ex, a[0])
        if m.kind == 'assoc':
            return M.assoc_insert(ex, cell, path, m, a[1], a[2], dty)
        k = M.key_term(ex, a[1], m.ksh)
        M.retain_facts(ex, k)
        old = M.unflatten(ex, iter([z3.Select(x, k) for x in m.leaves]), m.vsh, 'old')
        d = z3.simplify(z3.If(z3.Select(m.present, k), bv(1), bv(0)))
        vals = M.flatten(ex, a[2], m.vsh)
        m2 = m.set(present=z3.Store(m.present, k, z3.BoolVal(True)),
                   leaves=tuple(z3.Store(x, k, y) for x, y in zip(m.leaves, vals)))
        ex.write_path(cell, path, m2)
        return Adt(dty, {(1, 0): old}, d, None)

    @reg('HashMap::retain')
    def _(ex, info, a, dty):
        cell, path, m = M._map_at(ex, a[0])
        if m.kind == 'assoc':
            kept = []
            for (k_, v_) in m.entries:
                vc = Cell(v_)
                if ex.branch(ex.call_value(a[1], [Ref(Cell(k_), ()), Ref(vc, ())])):
                    kept.append((k_, vc.v))
            ex.write_path(cell, path, ex.read_path(cell, path).set(entries=tuple(kept)))
            return UNIT
        n = len(ex.env.setdefault('retained', []))
        new = z3.Const('%s.retained%d' % (m.name, n), m.present.sort())
        ex.env['retained'].append({'new': new, 'base': m, 'closure': a[1]})
        ex.write_path(cell, path, m.set(present=new))
        return UNIT

    @reg('HashMap::remove')
    def _(ex, info, a, dty):
        cell, path, m = M._map_at(ex, a[0])
        if m.kind == 'assoc':
            return M.assoc_remove(ex, cell, path, m, M.load(ex, a[1]), dty)
        k = M.key_term(ex, M.load(ex, a[1]), m.ksh)
        M.retain_facts(ex, k)
        old = M.unflatten(ex, iter([z3.Select(x, k) for x in m.leaves]), m.vsh, 'old')
        d = z3.simplify(z3.If(z3.Select(m.present, k), bv(1), bv(0)))
        ex.write_path(cell, path, m.set(present=z3.Store(m.present, k, z3.BoolVal(False))))
        return Adt(dty, {(1, 0): old}, d, None)


def _default_value(self, ex, ty):
    t = (ty or '').strip()
    s = sort_of(t)
    if s is not None:
        return self.zero(s)
    h = head(t)
    if re.sub(r"'\w+\s*", '', t).replace(' ', '') in ('&str', 'String', 'std::string::String', 'alloc::string::String'):
        return Obj('str', text='""')
    if h == 'Option':
        return self.none(t)
    if h == 'Vec':
        return Obj('vec', items=(), ty=t)
    if h == 'HashMap':
        g = generic_args(t)
        return self.new_assoc(g[0] if g else '?', g[1] if len(g) > 1 else '?')
    if h == 'HashSet':
        g = generic_args(t)
        return self.new_assoc(g[0] if g else '?', '()')
    if h in ('RefCell', 'Cell', 'Mutex'):
        g = generic_args(t)
        return Adt(t, {(None, 0): self.default_value(ex, g[0])})
    te = tuple_elems(t)
    if te is not None:
        return Adt(t, {(None, i): self.default_value(ex, x) for i, x in enumerate(te)})
    raise Inconclusive('Default for %s' % t)


def _opaque_eq(self, ex, ty, x, y):
    """Equality of values of an external type: same place => true; otherwise a fresh Bool,
    recorded in ex.env['opaque_eq'] so that a harness can constrain / name it."""
    def resolve(v):
        v = ex.materialize(v)
        while isinstance(v, Ref):
            inner = ex.read_path(v.cell, v.path)
            if isinstance(inner, Lazy) and strip_ref(inner.ty) is not None:
                inner = ex.materialize(inner)
            if isinstance(inner, Ref):
                v = inner
            else:
                return (v.cell.id, v.path), inner
        return None, v
    px, vx = resolve(x)
    py, vy = resolve(y)
    if px is not None and px == py:
        return z3.BoolVal(True)
    nx = vx.name if isinstance(vx, (Lazy, Adt)) and getattr(vx, 'name', None) else repr(px)
    ny = vy.name if isinstance(vy, (Lazy, Adt)) and getattr(vy, 'name', None) else repr(py)
    b = z3.Bool('eq(%s,%s)' % (nx, ny))
    ex.env.setdefault('opaque_eq', []).append((ty, nx, ny, b))
    return b


def _deep_eq(self, ex, a, b):
    """structural equality of two values as a z3 Bool (pointer identity for Arc / Source / references)"""
    a, b = ex.materialize(a), ex.materialize(b)
    if a is b:
        return z3.BoolVal(True)
    if z3.is_expr(a) and z3.is_expr(b):
        return a == b
    if isinstance(a, Ref) and isinstance(b, Ref):
        if a.pid is not None or b.pid is not None:
            return self.pid(ex, a) == self.pid(ex, b)
        return z3.BoolVal(a.cell is b.cell and a.path == b.path)
    if isinstance(a, Adt) and isinstance(b, Adt):
        c = []
        if a.discr is not None or b.discr is not None:
            c.append(self.discr(ex, a) == self.discr(ex, b))
        for k in sorted(set(a.fields) | set(b.fields), key=repr):
            fa = a.fields.get(k)
            fb = b.fields.get(k)
            if fa is None or fb is None:
                if (a.name is None and fa is None) or (b.name is None and fb is None):
                    continue        # field of an inactive variant
                fa = fa if fa is not None else ex.field_of(a, k[0], k[1], '?')
                fb = fb if fb is not None else ex.field_of(b, k[0], k[1], '?')
            e = self.deep_eq(ex, fa, fb)
            if k[0] is not None and a.discr is not None:
                e = z3.Implies(self.discr(ex, a) == bv(k[0] if isinstance(k[0], int) else 0), e)
            c.append(e)
        return z3.And(*c) if c else z3.BoolVal(True)
    if isinstance(a, Lazy) and isinstance(b, Lazy):
        if a.name == b.name:
            return z3.BoolVal(True)
    if a is UNIT and b is UNIT:
        return z3.BoolVal(True)
    if isinstance(a, Obj) and isinstance(b, Obj) and getattr(self, 'obj_eq', None) is not None:
        return self.obj_eq(ex, a, b)        # harness-defined equality of opaque model objects
    raise Inconclusive('deep_eq of %r and %r' % (a, b))


def _into_iter(self, ex, info, v, dty):
    raise Inconclusive('into_iter not modelled for %r' % (v,))


Models.default_value = _default_value
Models.deep_eq = _deep_eq
Models.opaque_eq = _opaque_eq
Models.into_iter = _into_iter
