"""Regenerates MANIFEST.json from the table below (keeps it valid at all times)."""
import json
import os

V = os.path.dirname(os.path.abspath(__file__))
TECH = 'symbolic execution of rustc MIR to SMT (z3): per-path unsat queries over the real functions, BMC over extracted transition relations, native replay of solver models'
SIM = "The real scheduler loop execute() (with Features::{get,is_finished,insert_retried_scenario,insert_scenarios}, FinishedRulesAndFeatures::*, Executor::{send_event,send_all_events,scenario_finished}, future::{then_yield,YieldThenReturn,YieldNow,SelectWithBiasedFirst}) is symbolically executed across polls to completion over a menu of small worlds (3-5 scenarios, serial/concurrent, rules, retry budget <= 1, limits 1/2/3/unlimited, per-attempt durations 0..2 polls, lazily delivered features, delayed retries); every outcome assignment is symbolic. Abstraction: Executor::run_scenario is replaced by a future that logs Started, is Pending a harness-chosen number of polls, fails/passes symbolically and performs the tail of run_scenario through the real callees; FuturesUnordered = FIFO ready queue; futures Mutex free when locked; model clock bounded to 2^50 ticks with delays < 2^40."
ATT = "The real Executor::run_scenario coroutine (with run_before_hook, run_step, run_after_hook, emit_failed_events, emit_after_hook_events, ExecutionFailure::*, send_event*, then_yield) is polled to completion for a menu of attempt shapes (0..2 feature/rule background steps, 0..3 own steps, hooks present/absent, with/without retries). User code is modelled: World::new / before hook / step functions / after hook complete after 0..1 polls and pass, panic while polled, or panic when CALLED (before returning their future); World::new may also return Err. step::Collection::find is an oracle per step (none / ambiguous / one). futures combinators (CatchUnwind, AssertUnwindSafe, AndThen, MapOk, TryFold, stream::iter, Then) are models; a panic is caught only by CatchUnwind::poll. The observed events / callback log are compared with an independent reference of the property statement; counterexamples are replayed through the real runner with scripted user code."
CLAIMED = {
    'C01': dict(
        text="Bounded symbolic execution of the compiler's MIR of the verdict path; every path of the kernels is decided by z3 for all 64-bit counter values and all event shapes; lifts to any stream because the verdict is an OR over monotone counters. Counterexamples are replayed natively against the real writers before being reported.",
        note="Kernels: writer::Stats::execution_has_failed (default body), all Stats getter impls (Summarize, Normalize, AssertNormalized, FailOnSkipped, Repeat, discard, Tee, Or), Summarize::handle_scenario/handle_step (+closures), Summarize::handle_event (coroutine polled to completion), FailOnSkipped::handle_event. Assumes: counters < 2^62; the runner retries exactly the attempts whose events carry retries.left > 0 and that failed (decided on its own kernel under C05); opaque gherkin::Step equality; libtest writer verdict (feature-gated) out of scope."),
    'C12': dict(
        text="Bounded symbolic execution + BMC over the transition relation extracted from the real MIR; solver verdict over all values within the bounds; counterexamples replayed natively.",
        note="Kernels: Summarize::handle_scenario, handle_step, closures, handle_event (coroutine). Per-transition obligations on every path from an arbitrary pre-state (INV: counters < 2^62, stored indicator valid, Skipped indicator implies scenarios.skipped >= 1); frame + additivity lift to any number of interleaved scenarios; BMC for one scenario: <= 2 attempts (thorough 3), <= 2 own steps (thorough 3) + background steps, from the initial state. Opaque: scenario.steps.last(), gherkin::Step ==; summary text (Styles::summary) havoced."),
    'C13': dict(
        text="Every wrapper is decided against an arbitrary (recording) inner writer by symbolic execution of its real async handle_event MIR polled to completion, for a fully symbolic stream item; that is what makes nesting compositional.",
        note="Kernels: FailOnSkipped::handle_event (+ map closures, Event::map, Cucumber::scenario, with_retries) and its default predicate (tag vectors of length <= 1 quick / 2 thorough per level, symbolic contents); Repeat::skipped/failed filter closures; Repeat::handle_event with 0..2 buffered items; Tee::handle_event/write (futures::join modelled), Or::handle_event; Stats getters (Tee = max, Or = sum, forwarding). Inner futures complete after 0..1 polls (thorough: up to 2). Custom predicates/filters are opaque symbolic Booleans."),
    'C05': dict(
        text="Sequencing on the simulated real scheduler loop (attempts of one scenario never overlap, attempt k carries current=k left=N-k, next attempt exists iff failed and budget left, a delayed retry starts >= delay model-clock ticks after the failed attempt ended while ready bystanders keep being dispatched). The retry arithmetic and the queue kernels that implement 'retry exactly on failure within budget, delayed' are decided for all 64-bit values by symbolic execution of their MIR; queue shapes are enumerated, everything inside an entry (retry options, delay, start instant, clock reading) is symbolic. Counterexamples are confirmed by an in-crate differential replay of the real private functions.",
        note="Kernels: Retries::initial/next_try, RetryOptions::next_try/with_deadline/without_deadline, From<RetryOptionsWithDeadline>, left_until_retry (Instant::elapsed = arbitrary value), Features::insert_scenarios (<= 2 inserted + <= 2 queued entries, both hash-map iteration orders), Features::get (queues of <= 2 Serial x <= 2 Concurrent entries, thorough 3; limit None | 0..3). Duration/Instant abstracted to 64-bit nanoseconds; futures Mutex locks at once. NOT covered here: the sequencing inside the multi-poll coroutines run_scenario/execute (attempts do not overlap, fresh World per attempt, other scenarios keep running during the delay) - stated as outside the claim."),
    'C15': dict(
        text="The filtering kernel of Cucumber::filter_run (the stream-map closure with the composed filter it captures, obtained by running the real coroutine up to `features.map(..)`) and the real tag-expression evaluator are executed symbolically on a parsed feature; tag contents, regex and user-closure verdicts are symbolic. Counterexamples are confirmed through the real filter_run with a recording runner.",
        note="Feature shape: <= 2 top-level scenarios + one rule with <= 2 scenarios; 0..1 tags per level (thorough 2); tag expressions from a menu of 6 tree shapes over two symbolic tag names (and / or / not nesting <= 2); modes: closure only, --name, --tags, --name with --tags. Regex::is_match and the user closure are opaque Booleans. Outside: parser.parse / runner.run plumbing, clap's conflict rule, larger trees."),
    'C18': dict(
        text="RetryOptions::parse_from_tags (with its apply_cli closures) and the option-merging prefix of <Basic as Runner>::run are decided on their MIR for every presence combination and all 64-bit values; counterexamples are confirmed by differential native replays (public parse_from_tags on a grid; the real runner observed under builder/CLI combinations).",
        note="Abstraction: the tag TEXT grammar (strip_prefix/split_once/parse/humantime inside the parse_tags closure) returns an arbitrary Option<(Option<usize>, Option<Duration>)> per tag list - pinned only by the repo's own nine unit tests; TagOperation::eval is replaced by a recorder (arbitrary verdict, tags it is given are checked; its semantics are decided under C15). run(): insert_features/execute intercepted, their cli / concurrency / fail_fast arguments compared with cli.or(builder) / cli || builder."),
    'C03': dict(
        text="The bracket bookkeeping is decided on its MIR: counting kernels from arbitrary symbolic maps (SMT arrays), closing/opening kernels for every hash-map iteration order, the ingester coroutine polled to completion, and the whole framing on the simulated real scheduler loop with an independent bracket checker. Counterexamples are confirmed in-crate or through the real runner.",
        note="Kernels: FinishedRulesAndFeatures::{rule_scenario_finished, feature_scenario_finished} (count < 2^62, count_scenarios uninterpreted), finish_all_rules_and_features (<= 2 features x <= 2 rules, all iteration orders), start_scenarios (batches <= 3 over 2 features / 2 rules, any subset already open), insert_features (<= 2 items quick / 3 thorough, Ok/Err symbolic, 0..1 pending polls, fail_fast symbolic). " + SIM),
    'C04': dict(
        text="'Every supplied scenario runs, nothing else, and the run terminates' is decided on the ingester coroutine, the queue-insertion kernel (nothing lost or duplicated) and the simulated real scheduler loop including lazily delivered features; a loop head revisited within one poll without returning Pending is reported as non-termination.",
        note="Kernels: insert_features, Features::insert (real iterator pipeline, classifier and retry resolver opaque), insert_scenarios (<= 2 inserted + <= 2 queued entries), execute() across polls joined with insert_features over a parser stream that is Pending 1..2 polls (thorough 5) before an item. The idle-spin defect found this way was repaired (fix: commit, see known_findings.txt). " + SIM),
    'C06': dict(
        text="The limit is decided on Features::get (never more than the requested count, free slots filled with ready entries), the option merge (CLI over builder, default Some(64)) and the slot accounting of the simulated real scheduler loop: in-flight attempts <= limit at every dispatch, for every completion order in the world menu.",
        note="Kernels: <Basic as Default>::default, Runner::run prefix (concurrency = cli.or(builder)), Features::get (queues <= 2+2, thorough 3+3; limit None | 0..3), execute() across polls. " + SIM),
    'C07': dict(
        text="Serial classification (default @serial predicate over inherited tags), queue selection (a ready Serial entry is handed out alone and first) and the simulated real scheduler loop (a serial attempt dispatched alone in its batch; nothing else in flight while it runs) are decided on their MIR. The loop check exhibits the recorded finding when a serial scenario becomes ready while concurrent ones are in flight.",
        note="Kernels: default which_scenario closure (0..1 tags per level, thorough 2, contents symbolic), Features::get, insert_scenarios, execute() across polls incl. late-serial and delayed-serial-retry worlds. Known finding role=serial-dispatched-while-concurrent-in-flight (reproduced natively). " + SIM),
    'C08': dict(
        text="Fail-fast is decided on the option merge (cli || builder), the ingester (stops after the first parser error) and the simulated real scheduler loop: after the loop has observed a final failure no further attempt is dispatched, every started attempt finishes, all brackets close, run-Finished is last; a retried failure does not trip it; without failures every scenario runs.",
        note="Kernels: Runner::run prefix, insert_features, execute() across polls with fail_fast on over worlds with limits 1..3 and retry budget <= 1. " + SIM),
    'C17': dict(
        text="The real step::Collection::find is executed symbolically over association maps whose iteration order is a symbolic permutation, with the regex engine replaced by an oracle table (match verdict, group participation and spans symbolic; group count and names fixed per definition). Counterexamples are confirmed by a native differential replay of the public find() against Python's re on a grid of definitions, registration orders and texts.",
        note="3 definitions with 0/1/2 capture groups placed on the three keywords in 4 layouts (thorough: all 27); step keyword symbolic; every iteration order of the keyword maps. Outside: the regex engine itself, multi-byte text, more than 3 definitions. Sorting by (regex, location) is modelled as sorting by definition index (texts r0 < r1 < r2)."),
    'C02': dict(
        text="One attempt: the sequence of events sent equals the canonical sequence computed from the outcomes (Started, before-hook events, per step Started then Passed/Skipped or deferred Failed, failure event before the after-hook events, Finished), every event carries the same retries, and a panic never leaves the attempt without its Failed/Finished events.",
        note=ATT + " NOT covered: interleaving with other scenarios' events (each attempt is a separate coroutine writing to the shared channel; the scheduler simulation abstracts run_scenario)."),
    'C09': dict(
        text="One attempt: before hook first on a freshly created World; every executed step sees the same World with the mutations of the previous ones (model counter); the after hook runs exactly once with the World iff one exists and with the true finishing reason; a World is created at most once and only when a before hook is set or a step matched.",
        note=ATT + " NOT covered: no World shared between attempts/scenarios (follows from each attempt creating its own; not decided across the scheduler)."),
    'C10': dict(
        text="One attempt: no modelled panic (while polled or when called) or World::new error escapes; the Failed event carries the payload of the code that failed, the after hook still runs, Finished and the finished-notification (is_failed / retried) are emitted; on the simulated scheduler loop the panic hook is silenced while scenarios run and the original hook is back when execute() returns.",
        note=ATT + " Payloads are identity tags (payload TYPE - String / &str / other - is outside the model); what a real panic hook prints is outside."),
    'C11': dict(
        text="Every linearisation (chosen by solver-decided choices) of small event posets fed call by call through the real Normalize::handle_event coroutine and its four Emitter impls: the inner writer receives exactly the same multiset, per-attempt order kept, features / rules / attempts contiguous and properly nested, run-Finished last; run-Started, ParsingFinished and parser errors at once; head-of-line events in the same call (delivery counts after every item equal an independent reference normaliser); sequential input passes through item by item. The retry counter of the retried scenario is symbolic (attempts k, k+1).",
        note="Kernels: <Normalize as Writer>::handle_event, Normalize::new, every Queue / CucumberQueue / FeatureQueue method, the four Emitter::emit coroutines, FinishedState::take_to_emit, Event::split/wrap/insert. LinkedHashMap is modelled as an insertion-ordered association map (re-insert of a present key moves it to the back as linked-hash-map 0.5.6 does); Source keys compare by pointer identity. Bounds: posets basic (2 features, scenario retried once + second scenario: 210 linearisations), rule (second scenario inside a rule: 924), immediate (ParsingFinished and a parser error anywhere: 840), thorough adds a third scenario concurrent with the retried one (7425); inner writer futures ready at once. Violations are replayed through the real writer::Normalize over a recording writer (driver mode stream) and judged by the same independent checker; sampled explored linearisations are replayed natively on every run to validate the translation. NOT covered: more than 2 features / 3 scenarios, more than one retry, step/hook events inside attempts (only Started/Finished), pending inner writers."),
}
NA_REASON = {
    'C14': 'reporters: the facts leave through serde_json / junit-report / console styling / io::Write and the oracle is a parse-back of text; nothing of the property is left once those library calls are opaque (DESIGN.md section 3)',
    'C16': 'outline expansion is Regex::replace_all over user strings inside iterator adaptors; with the regex engine and string rewriting opaque nothing of the property remains to decide',
    'C19': 'quantifies over programs: proc-macro expansion, link-time inventory registration, cucumber-expressions -> regex; not symbolically executable here',
    'C20': 'tracing integration: global subscriber, span ids, crossbeam AtomicCell, helper thread and real timing; feature-gated code that is not in the default-feature MIR',
}


def main():
    props = [json.loads(l) for l in open(os.path.join(V, 'properties.jsonl'))]
    checks = []
    for pid, c in CLAIMED.items():
        checks.append({
            'property_id': pid,
            'quick_cmd': './check %s quick' % pid,
            'thorough_cmd': './check %s thorough' % pid,
            'evidence_file': '/verif/evidence/%s.json' % pid,
            'replay_cmd_template': 'python3-vt -m checks.replay_cli {path}',
            'engine': 'mirsmt',
            'level_claimed': {'category': 'model_checking', 'text': c['text'], 'design_ref': 'DESIGN.md section 3 (%s)' % pid},
            'level_note': c['note'],
            'technique': TECH,
        })
    na = []
    for p in props:
        if p['id'] not in CLAIMED:
            na.append({'property_id': p['id'], 'reason': NA_REASON.get(p['id'], 'solver-based check not built yet in this round (DESIGN.md section 3 says which interpreter stage it needs)')})
    m = {'version': 1, 'setup_cmd': './setup.sh',
         'hooks': {'guard': 'cucumber_rs_cucumber_verif', 'enable': 'none needed: MIR is dumped from the unmodified sources by the stock nightly compiler',
                   'baseline_off_cmd': 'cd /repo && cargo test --workspace --no-fail-fast --offline', 'source_commits': [], 'add_only': True},
         'engines': [{'name': 'mirsmt', 'path': '/verif/mirsmt', 'serves_properties': list(CLAIMED),
                      'kind_free_text': 'own symbolic executor over rustc -Zunpretty=mir text, z3 back end, native replay driver (/verif/replay)'}],
         'checks': checks, 'not_applicable': na,
         'notes': 'exit 2 = inconclusive (never a pass). KNOWN-FINDING lines: see known_findings.txt and DESIGN.md.'}
    json.dump(m, open(os.path.join(V, 'MANIFEST.json'), 'w'), indent=1)
    try:
        import jsonschema
        jsonschema.validate(m, json.load(open('/root/.vp/MANIFEST.schema.json')))
    except ImportError:
        pass
    print('manifest ok: %d checks, %d n/a' % (len(checks), len(na)))


if __name__ == '__main__':
    main()
