#!/bin/bash
# Offline set-up: nothing to build for the framework itself (Python + z3 from the tooling venv).
# Warm the front-end cache (MIR dump of /repo's current tree) and the native replay driver so that
# the first check does not pay for compiling dependencies. Both are rebuilt on demand by every check.
cd "$(dirname "$0")"
export CARGO_NET_OFFLINE=true
python3-vt - <<'PY'
import sys
sys.path.insert(0, '.')
import z3
from mirsmt import frontend
prog, meta = frontend.load()
print('front end ok:', meta)
from checks import replay
print('replay driver:', replay.build())
replay.cleanup()
PY
