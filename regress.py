#!/usr/bin/env python3
"""Development helper (not a registered check): run every claimed check on the clean tree (expect rc 0), and
optionally every seeded change under /verif/seeded against the checks named for it (expect rc 1 + VIOLATION).
usage: regress.py [clean] [seeds] [ID ...]"""
import json
import os
import subprocess
import sys
import time

V = os.path.dirname(os.path.abspath(__file__))
REPO = os.environ.get('VERIF_REPO', '/repo')          # (a scratch clone with its own VERIF_CACHE may be used instead)
SEED_CHECKS = {'C01-a': ['C01', 'C12'], 'C12-a': ['C12'], 'C13-a': ['C13'], 'C05-a': ['C05'], 'C18-a': ['C18'], 'C15-a': ['C15'], 'C06-a': ['C06'],
               'C03-a': ['C03'], 'C08-a': ['C08'], 'C04-a': ['C04'], 'C07-a': ['C07'], 'C17-a': ['C17'], 'C02-a': ['C02', 'C10'], 'C09-a': ['C09'],
               'C10-a': ['C10', 'C02'], 'C11-a': ['C11'],
               'C01-b': ['C01', 'C05', 'C10'], 'C02-b': ['C02'], 'C03-b': ['C03'], 'C04-b': ['C04'], 'C05-b': ['C05'], 'C06-b': ['C06', 'C07'],
               'C07-b': ['C07'], 'C08-b': ['C08', 'C03', 'C18'], 'C09-b': ['C09', 'C08'], 'C10-b': ['C10'], 'C11-b': ['C11'], 'C12-b': ['C12'],
               'C13-b': ['C13'], 'C15-b': ['C15'], 'C17-b': ['C17'], 'C18-b': ['C18'],
               'C01-c': ['C01', 'C08'], 'C02-c': ['C02', 'C17'], 'C03-c': ['C03'], 'C05-c': ['C05'], 'C06-c': ['C06', 'C18'], 'C07-c': ['C07'],
               'C08-c': ['C08', 'C03'], 'C16-a': ['C16'], 'C04-c': ['C04'], 'C09-c': ['C09'], 'C11-c': ['C11'], 'C12-c': ['C12'], 'C13-c': ['C13'],
               'C15-c': ['C15'], 'C17-c': ['C17'], 'C18-c': ['C18', 'C08'], 'C10-c': ['C10'],
               'C01-d': ['C01', 'C11'], 'C02-d': ['C02'], 'C03-d': ['C03'], 'C04-d': ['C04'], 'C05-d': ['C05', 'C10'], 'C06-d': ['C06'], 'C07-d': ['C07'],
               'C08-d': ['C08'], 'C09-d': ['C09'], 'C10-d': ['C10', 'C09'], 'C11-d': ['C11'], 'C12-d': ['C12'], 'C13-d': ['C13'], 'C15-d': ['C15', 'C16'],
               'C16-b': ['C16'], 'C17-d': ['C17'], 'C18-d': ['C18', 'C15'],
               'C01-e': ['C01', 'C13'], 'C02-e': ['C02'], 'C03-e': ['C03'], 'C04-e': ['C04'], 'C05-e': ['C05'], 'C06-e': ['C06'], 'C07-e': ['C07', 'C16'],
               'C08-e': ['C08', 'C03'], 'C09-e': ['C09', 'C02'], 'C10-e': ['C10'], 'C11-e': ['C11'], 'C12-e': ['C12'], 'C13-e': ['C13'], 'C15-e': ['C15', 'C18'],
               'C16-c': ['C16'], 'C17-e': ['C17', 'C02'], 'C18-e': ['C18', 'C05'],
               'C01-f': ['C01', 'C16'], 'C02-f': ['C02', 'C08'], 'C03-f': ['C03'], 'C04-f': ['C04'], 'C05-f': ['C05'], 'C06-f': ['C06'], 'C07-f': ['C07'],
               'C08-f': ['C08', 'C10'], 'C09-f': ['C09'], 'C10-f': ['C10'], 'C11-f': ['C11'], 'C12-f': ['C12'], 'C13-f': ['C13'], 'C15-f': ['C15'], 'C16-d': ['C16'],
               'C17-f': ['C17'], 'C18-f': ['C18'],
               'C01-g': ['C01', 'C13'], 'C02-g': ['C02'], 'C03-g': ['C03'], 'C04-g': ['C04'], 'C05-g': ['C05'], 'C06-g': ['C06'], 'C07-g': ['C07'], 'C08-g': ['C08'],
               'C09-g': ['C09'], 'C10-g': ['C10'], 'C11-g': ['C11'], 'C12-g': ['C12'], 'C13-g': ['C13'], 'C15-g': ['C15'], 'C16-e': ['C16', 'C18'],
               'C17-g': ['C17', 'C02'], 'C18-g': ['C18', 'C16'],
               'C01-h': ['C01'], 'C02-h': ['C02'], 'C03-h': ['C03'], 'C04-h': ['C04', 'C18'], 'C05-h': ['C05'], 'C06-h': ['C06'], 'C07-h': ['C07'],
               'C08-h': ['C08'], 'C09-h': ['C09', 'C10'], 'C10-h': ['C10'], 'C11-h': ['C11'], 'C12-h': ['C12'], 'C13-h': ['C13'], 'C15-h': ['C15'], 'C16-f': ['C16'],
               'C17-h': ['C17'], 'C18-h': ['C18'], 'C19-a': ['C19'],
               'C02-i': ['C02', 'C05'], 'C04-i': ['C04', 'C02'], 'C06-i': ['C06', 'C18'], 'C07-i': ['C07'], 'C09-i': ['C09'], 'C11-i': ['C11'], 'C12-i': ['C12'],
               'C13-i': ['C13'], 'C15-i': ['C15'], 'C16-g': ['C16'], 'C17-i': ['C19'], 'C19-b': ['C19', 'C17'],
               'C01-i': ['C01', 'C02'], 'C03-i': ['C03', 'C08'], 'C05-i': ['C05', 'C07'], 'C08-i': ['C08'], 'C10-i': ['C10', 'C02'],
               'C02-j': ['C02', 'C10'], 'C03-j': ['C03', 'C08'], 'C06-j': ['C06'], 'C07-j': ['C07', 'C06'], 'C09-j': ['C09'], 'C11-j': ['C11'], 'C12-j': ['C12'],
               'C13-j': ['C13', 'C01'], 'C15-j': ['C15'], 'C16-j': ['C16'], 'C17-j': ['C17', 'C19'], 'C19-c': ['C19'],
               'C04-j': ['C04', 'C03'], 'C05-j': ['C05'], 'C08-j': ['C08'], 'C10-j': ['C10', 'C09'], 'C18-j': ['C18']}
# kept but not expected to be detected (see its meta.json and DESIGN section 5): C18-i


def run(pid):
    t = time.time()
    r = subprocess.run([os.path.join(V, 'check'), pid], stdout=subprocess.PIPE, stderr=subprocess.STDOUT, text=True)
    return r.returncode, r.stdout, time.time() - t


def main():
    args = sys.argv[1:]
    m = json.load(open(os.path.join(V, 'MANIFEST.json')))
    claimed = [c['property_id'] for c in m['checks']]
    only = [a for a in args if a.startswith('C')]
    ok = True
    if 'clean' in args or not args:
        assert subprocess.run(['git', '-C', REPO, 'status', '--short', '--untracked-files=no'], stdout=subprocess.PIPE, text=True).stdout.strip() == '', '/repo dirty'
        for pid in claimed:
            if only and pid not in only:
                continue
            rc, out, dt = run(pid)
            last = [l for l in out.splitlines() if l.startswith(pid + ' tier=')]
            print('clean %s rc=%d %.0fs %s' % (pid, rc, dt, last[-1] if last else out[-200:]))
            ok = ok and rc == 0
    if 'seeds' in args:
        for sid, pids in sorted(SEED_CHECKS.items()):
            if only and sid.split('-')[0] not in only and sid not in only:
                continue
            patch = os.path.join(V, 'seeded', sid, 'patch.diff')
            if not os.path.exists(patch):
                continue
            a = subprocess.run(['git', '-C', REPO, 'apply', patch])
            if a.returncode != 0:
                print('seed %s: patch does not apply' % sid)
                continue
            try:
                for pid in pids:
                    if pid not in claimed:
                        print('seed %s vs %s: not claimed' % (sid, pid))
                        continue
                    rc, out, dt = run(pid)
                    v = [l for l in out.splitlines() if l.startswith('VIOLATION')]
                    print('seed %s vs %s rc=%d %.0fs %s' % (sid, pid, rc, dt, v[0][:160] if v else [l for l in out.splitlines() if 'INCONCLUSIVE' in l][:1]))
            finally:
                subprocess.run(['git', '-C', REPO, 'checkout', '--', '.'])
    sys.exit(0 if ok else 1)


if __name__ == '__main__':
    main()
